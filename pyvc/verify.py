"""Per-function verification driver: enumerate paths with the oracle, collect obligations, discharge them."""
import ast
import os
import time
import traceback
import z3
from .values import *
from .engine import Engine, Oracle, State, Frame, HObj, HList, HSeqList, HDict, Obligation
from .exprs import ExprMixin
from .calls import CallMixin
from .bcalls import BuiltinMixin
from .stmts import StmtMixin
from .extern import ExternMixin
from .npstats import StepStatsMixin

MAX_PATHS = 4000


class Executor(StepStatsMixin, ExternMixin, ExprMixin, CallMixin, BuiltinMixin, StmtMixin, Engine):
    in_body = False

    # ------------------------------------------------------------ generator under contract: yields
    def on_yield(self, val, node):
        c = self.cur_contract
        env = self.inv_env()
        env['yielded'] = val
        for nm, r in self.clauses(c.get('yield_requires', [])):
            self.oblige(f'yield-req#{nm}', self.truth(self.ev_spec(r, env)), node)
        new = {g: self.ev_spec(u, env) for g, u in c.get('on_yield', {}).items()}
        self.st.ghost.update(new)
        self.st.out.append(val)
        for loc in c.get('yield_havoc', []):
            self.havoc_location(loc, env, c)
        if c.get('yield_may_raise') and self.st.oracle.choose(2) == 1:
            raise PyRaise('AnyException', 'thrown into the generator at yield')

    def some_call_passes(self, fname, kwname):
        cache = self.__dict__.setdefault('_kwcalls', {})
        if (fname, kwname) not in cache:
            found = False
            for t in self.src.trees.values():
                for n in ast.walk(t):
                    if isinstance(n, ast.Call) and any(k.arg == kwname for k in n.keywords):
                        f = n.func
                        if (isinstance(f, ast.Attribute) and f.attr == fname) or (isinstance(f, ast.Name) and f.id == fname):
                            found = True
            cache[(fname, kwname)] = found
        return cache[(fname, kwname)]

    # ------------------------------------------------------------ one path
    def find_function(self, key, c):
        self.enclosing_bound = set()
        target = c.get('target', key)
        cls, _, name = target.rpartition('.')
        if cls and cls in self.src.classes:
            kind = c.get('kind', 'plain')
            if name.endswith('.setter'):
                name, kind = name[:-7], 'set'
            fn, owner, ent = self.src.find_method(cls, name, kind=kind)
            if fn is None:
                fn, owner, ent = self.src.find_method(cls, name, kind='get')
            if fn is None:
                raise Unsupported(f'contract binding lost: {target}')
            return fn, owner, self.src.classes[owner].module, ent
        if name in self.src.funcs:
            fn, mod = self.src.funcs[name]
            return fn, None, mod, {}
        if cls and (cls in self.src.funcs or '.' in cls):
            # nested function:  outer.inner  or  Class.method.inner
            parts = target.split('.')
            node, mod, owner = None, None, None
            if parts[0] in self.src.funcs:
                node, mod = self.src.funcs[parts[0]]
                rest = parts[1:]
            elif parts[0] in self.src.classes:
                owner = parts[0]
                node, _, _ = self.src.find_method(parts[0], parts[1])
                mod = self.src.classes[owner].module
                rest = parts[2:]
            outer_fn = node
            for nm in rest:
                outer_fn = node
                node = next((n for n in ast.walk(node) if isinstance(n, ast.FunctionDef) and n.name == nm and n is not node), None) if node else None
            if node is not None:
                # names the enclosing function binds: free variables of the nested function, captured at some EARLIER time
                self.enclosing_bound = {n.id for n in ast.walk(outer_fn) if isinstance(n, ast.Name) and isinstance(n.ctx, ast.Store)} \
                    | {a.arg for a in outer_fn.args.args + outer_fn.args.kwonlyargs}
                return node, None, mod, {'nested_in': owner}
        if name in self.spec_funcs:
            return self.spec_funcs[name], None, '<spec>', {}
        raise Unsupported(f'contract binding lost: {target}')

    def run_path(self, key, c, case, oracle):
        st = State(oracle)
        self.st = st
        self.cur_key, self.cur_contract = key, c
        fn, owner, module, ent = self.find_function(key, c)
        self.loop_ordinals = {}
        k = 0
        for n in ast.walk(fn):
            pass
        for n in _loops_in_order(fn):
            self.loop_ordinals[id(n)] = k
            k += 1
        fr = Frame({}, fn_key=key, cls=owner, module=module)
        st.frames.append(fr)
        env = fr.env
        # globals
        for gname, gspec in c.get('globals', {}).items():
            st.ghost[('global', gname)] = self.fresh_of(gspec, gname)
        # receiver
        params = [p.arg for p in fn.args.posonlyargs + fn.args.args]
        is_method = bool(owner) and not ent.get('static')
        cls_for_self = c.get('self_class', owner if not key.rpartition('.')[0] else key.rpartition('.')[0])
        if c.get('target'):
            cls_for_self = c.get('self_class', c['target'].rpartition('.')[0])
        if is_method:
            pname = params[0]
            if ent.get('classmethod') or c.get('self_is_class'):
                env[pname] = SV('cls', cls_for_self)
            elif 'self_from_init' in c:
                # the receiver is built by the REAL constructor from symbolic arguments; objects it creates for itself are then set to
                # an arbitrary state of the same shape (any number of earlier method calls may have changed their primitive fields)
                spec = c['self_from_init']
                args = {k_: self.fresh_of(v_, 'init_' + k_) for k_, v_ in spec.items()}
                before = set(st.heap)
                o = self.instantiate(cls_for_self, [], args, fn)
                for oid in sorted(set(st.heap) - before):
                    h_ = st.heap[oid]
                    if oid == o.t or not isinstance(h_, HObj):
                        continue
                    h_.symbolic_model = True
                    for fk, fv in list(h_.f.items()):
                        if fv.k in ('int', 'bool'):
                            h_.f[fk] = self.havoc_like(fv, fk)
                        elif fv.k == 'list' and not isinstance(st.heap[fv.t], type(None)):
                            lst = st.heap[fv.t]
                            if hasattr(lst, 'items') and all(x.k in ('int', 'bool') for x in lst.items):
                                lst.items[:] = [self.havoc_like(x, f'{fk}{i}') for i, x in enumerate(lst.items)]
                st.heap[o.t].symbolic_model = True
                env[pname] = o
                for inv in c.get('self_inv', self.models.get(cls_for_self, {}).get('inv', [])):
                    self.assume(self.truth(self.ev_spec(inv, {'self': o})))
            else:
                model = {'fields': c.get('self_fields', self.models.get(cls_for_self, {}).get('fields', {})),
                         'inv': c.get('self_inv', self.models.get(cls_for_self, {}).get('inv', []))}
                env[pname] = self.fresh_obj(cls_for_self, model, 'self')
            params = params[1:]
        pspecs = dict(c.get('params', {}))
        pspecs.update(case)
        for cn, cs in c.get('closure', {}).items():
            env[cn] = self.fresh_of(case.get(cn, cs), cn)
        _defaults = dict(zip([a.arg for a in (fn.args.posonlyargs + fn.args.args)][::-1], fn.args.defaults[::-1]))
        _defaults.update({a.arg: d for a, d in zip(fn.args.kwonlyargs, fn.args.kw_defaults) if d is not None})
        for p in params + [a.arg for a in fn.args.kwonlyargs]:
            if p not in pspecs:
                if p in _defaults:
                    # a parameter the contract does not know (added later, with a default).  If no call in the source passes it, the
                    # default is what callers get; if some call does pass it and it is a flag, either value may arrive
                    dv = self.ev(_defaults[p])
                    if dv.k == 'bool' and self.some_call_passes(fn.name, p):
                        dv = VB(self.sym(p, BOOL))
                    env[p] = dv
                    continue
                raise Unsupported(f'{key}: no type for parameter {p}')
            env[p] = self.fresh_of(pspecs[p], p)
        if fn.args.kwarg:
            kwn = fn.args.kwarg.arg
            kspec = pspecs.get(kwn, {})
            d = {}
            if isinstance(kspec, dict):
                for kk, vs in kspec.items():
                    d[('c', kk)] = self.fresh_of(vs, kk)
            env[kwn] = SV('dict', st.alloc(HDict(d)))
        if fn.args.vararg:
            van = fn.args.vararg.arg
            env[van] = SV('tuple', tuple(self.fresh_of(s, f'{van}{i}') for i, s in enumerate(pspecs.get(van, []))))
        for g, (spec, init) in c.get('ghost', {}).items():
            st.ghost[g] = self.ev_spec(init, env)
        for loc, (spec, constraint) in c.get('class_state', {}).items():
            cname, _, attr = loc.rpartition('.')
            v = self.fresh_of(spec, attr)
            st.ghost[('clsattr', cname, attr)] = v
            e2 = dict(env)
            e2['self_cached'] = v
            self.assume(self.truth(self.ev_spec(constraint, e2)))
        for stmt in c.get('setup', []):
            # input-shape construction (sharing between argument objects): plain assignments executed before the precondition
            for node in ast.parse(stmt).body:
                self.exec(node)
        for nm, r in self.clauses(c.get('requires', [])):
            self.assume(self.truth(self.ev_spec(r, env)))
        st.old_heap = st.snapshot_heap()
        st.entry_heap = st.old_heap      # modular calls swap st.old_heap temporarily; the frame check needs the state at entry
        st.old_env = dict(env)
        st.old_ghost = dict(st.ghost)
        st.inputs = dict(env)
        st.entry_pc_len = len(st.pc)
        old_env = dict(env)
        # ---- body
        outcome = ('normal', NONE)
        self.in_body = True
        try:
            self.exec_block(fn.body)
        except ReturnSig as r:
            outcome = ('normal', r.v)
        except PyRaise as r:
            outcome = ('raise', r.exc, r.info)
        finally:
            self.in_body = False
        # ---- exit obligations
        declared = c.get('raises', {})
        if outcome[0] == 'raise' and outcome[1] in ('StubException',) + tuple(c.get('may_raise', [])):
            # an exception of an abstract callee / of the environment propagates: only the exceptional postconditions apply
            penv = dict(old_env)
            for nm, r in self.clauses(c.get('exc_ensures', [])):
                self.oblige(f'exc-post#{nm}', self.truth(self.ev_spec(r, penv)), fn)
            self.check_frame(c, True, fn, old_env)
            return outcome
        if outcome[0] == 'raise':
            exc = outcome[1]
            cond = declared.get(exc)
            if cond is None:
                for d in declared:
                    if d.split('.')[-1] == exc.split('.')[-1]:
                        cond = declared[d]
                        exc = d
            if cond is None:
                self.oblige(f'raises-only-if[{exc}]', z3.BoolVal(False), fn, info=f'undeclared exception {exc} {outcome[2]}')
            else:
                self.oblige(f'raises-only-if[{exc}]', self.truth(self.ev_old(cond, old_env)), fn)
            penv = dict(old_env)
            for nm, r in self.clauses(c.get('exc_ensures', [])):
                self.oblige(f'exc-post#{nm}', self.truth(self.ev_spec(r, penv)), fn)
            self.check_frame(c, True, fn, old_env)
        else:
            res = outcome[1]
            if c.get('kind') == 'get' and ent.get('cached') and is_method and env[pname].k == 'obj' \
                    and self.cache_may_be_stale(fn.name, fn, owner) and oracle.choose(2) == 1:
                # the getter is a functools.cached_property: on an object with a history the value READ is the one computed in an
                # earlier state of the object (never invalidated), i.e. any value of this shape
                res = self.havoc_like(res, 'stale_' + fn.name) if res.k not in ('list', 'dict', 'obj') else SV('opq', self.sym('stale_' + fn.name, OPQ), 'unknown')
            penv = dict(old_env)
            penv['result'] = res
            for exc, cond in declared.items():
                self.oblige(f'noraise-outside[{exc}]', z3.Not(self.truth(self.ev_old(cond, old_env))), fn)
            for nm, r in self.clauses(c.get('ensures', [])):
                self.oblige(f'post#{nm}', self.truth(self.ev_spec(r, penv)), fn)
            if is_method and c.get('inv_preserved') and env.get(params and 'self' or 'self') is not None:
                for i, r in enumerate(c.get('self_inv', self.models.get(cls_for_self, {}).get('inv', []))):
                    self.oblige(f'inv-exit#{i}', self.truth(self.ev_spec(r, penv)), fn)
            self.check_frame(c, False, fn, old_env)
        return outcome

    # ------------------------------------------------------------------ frame condition
    def check_frame(self, c, exceptional, fn, old_env):
        """`modifies` (normal exits) / `exc_modifies` (exceptional exits) of a VERIFIED contract are proof obligations: every
        object that existed at entry has, at exit, the field values / elements it had at entry, except the listed locations
        (and the list / dict objects those locations held at entry).  One obligation per exit path (stable key)."""
        locs = c.get('exc_modifies') if exceptional else c.get('modifies')
        if locs is None and os.environ.get('PYVC_FRAME_PROBE') and not c.get('lemma'):
            locs = []
        if locs is None or c.get('axiom'):
            return
        st = self.st
        entry = st.entry_heap
        allowed_fields, allowed_ids = set(), set()

        def reach(v):
            if v.k in ('list', 'dict') and v.t not in allowed_ids:
                allowed_ids.add(v.t)
                h = entry.get(v.t)
                if isinstance(h, HDict):
                    for x in list(h.d.values()) + [x for _, x in h.sym]:
                        reach(x)
                elif isinstance(h, HList) and not isinstance(h, HSeqList):
                    for x in h.items:
                        reach(x)
            elif v.k == 'tuple':
                for x in v.t:
                    reach(x)
        def owners(base):
            # objects (entry-heap ids) a base path denotes; '*' stands for every field the object had at entry
            if '*' not in base:
                try:
                    o = self.ev_spec('old(' + base + ')', old_env)
                except (PyRaise, Unsupported, KeyError):
                    return []       # the owner did not exist at entry: objects created by the call are not constrained
                return [o.t] if o.k == 'obj' and o.t in entry else []
            head, _, rest = base.partition('.*')
            out = []
            for oid in owners(head):
                for v in entry[oid].f.values():
                    vs = [v]
                    if v.k == 'list' and isinstance(entry.get(v.t), HList) and not isinstance(entry.get(v.t), HSeqList):
                        vs = entry[v.t].items
                    for x in vs:
                        if x.k == 'obj' and x.t in entry:
                            if rest:
                                raise Unsupported('frame location: only a trailing .* or one .*. level is supported')
                            out.append(x.t)
            return out
        wild_objs = set()
        for loc in locs:
            base, _, field = loc.rpartition('.')
            for oid in owners(base):
                if field == '*':
                    wild_objs.add(oid)
                    for v in entry[oid].f.values():
                        reach(v)
                    continue
                allowed_fields.add((oid, field))
                if field in entry[oid].f:
                    reach(entry[oid].f[field])
        goals, where = [], []

        def same_container(h0, h1, what):
            if h0 is None or h1 is None:
                goals.append(z3.BoolVal(False)); where.append(what)
            elif isinstance(h0, HSeqList):
                if not isinstance(h1, HSeqList):
                    goals.append(z3.BoolVal(False)); where.append(f'list {what}')
                elif not h0.seq.eq(h1.seq):
                    goals.append(h0.seq == h1.seq); where.append(f'list {what}')
            elif isinstance(h0, HList):
                if not isinstance(h1, HList) or isinstance(h1, HSeqList) or len(h0.items) != len(h1.items):
                    goals.append(z3.BoolVal(False)); where.append(f'list {what} (length)')
                else:
                    for i, (x, y) in enumerate(zip(h0.items, h1.items)):
                        same(x, y, f'list {what}[{i}]')
            elif isinstance(h0, HDict):
                if not isinstance(h1, HDict) or set(h0.d) != set(h1.d) or len(h0.sym) != len(h1.sym):
                    goals.append(z3.BoolVal(False)); where.append(f'dict {what} (keys)')
                else:
                    for kk in h0.d:
                        same(h0.d[kk], h1.d[kk], f'dict {what}[{kk}]')
                    for (k0, v0), (k1, v1) in zip(h0.sym, h1.sym):
                        same(k0, k1, f'dict {what} key'); same(v0, v1, f'dict {what} value')

        def same(a, b, what):
            if a is b:
                return
            if a.k in ('int', 'bool') and b.k in ('int', 'bool'):
                g = (a.t == b.t) if a.k == b.k else (self.as_int(a) == self.as_int(b))
            elif a.k in ('bytes', 'str', 'seq', 'const') and b.k in ('bytes', 'str', 'seq', 'const') and not (a.k == 'const' and b.k == 'const'):
                try:
                    g = self.as_seq(a) == self.as_seq(b)
                except Unsupported:
                    g = z3.BoolVal(False)
            elif a.k != b.k:
                g = z3.BoolVal(False)
            elif a.k == 'const':
                g = z3.BoolVal(type(a.t) is type(b.t) and a.t == b.t)
            elif a.k in ('opq', 'ref'):
                g = a.t == b.t
            elif a.k == 'enumv':
                g = z3.And(z3.BoolVal(a.t[0] == b.t[0]), a.t[1] == b.t[1])
            elif a.k == 'tuple':
                if len(a.t) != len(b.t):
                    g = z3.BoolVal(False)
                else:
                    for i, (x, y) in enumerate(zip(a.t, b.t)):
                        same(x, y, f'{what}[{i}]')
                    return
            elif a.k == 'none':
                return
            elif a.k in ('list', 'dict') and a.t != b.t:
                # rebound to another container: unobservable when it holds what the old one held at entry
                same_container(entry.get(a.t), st.heap.get(b.t), what)
                return
            elif a.k in ('obj', 'list', 'dict', 'cls', 'enum'):
                g = z3.BoolVal(a.t == b.t)
            else:
                g = z3.BoolVal(a.t is b.t)
            if z3.is_true(z3.simplify(g)) if z3.is_expr(g) else g:
                return
            goals.append(g)
            where.append(what)
        for oid, h0 in entry.items():
            h1 = st.heap.get(oid)
            if h1 is None:
                continue
            if isinstance(h0, HObj):
                for f in sorted(set(h0.f) | set(h1.f)):
                    if (oid, f) in allowed_fields or oid in wild_objs:
                        continue
                    what = f'{h0.cls}.{f}'
                    if f not in h0.f or f not in h1.f:
                        goals.append(z3.BoolVal(False))
                        where.append(what + (' (created)' if f in h1.f else ' (deleted)'))
                        continue
                    same(h0.f[f], h1.f[f], what)
            elif oid in allowed_ids:
                continue
            else:
                same_container(h0, h1, f'#{oid}')
        goal = z3.And(*goals) if goals else z3.BoolVal(True)
        self.oblige('exc-frame' if exceptional else 'frame', goal, fn,
                    info=('locations written: ' + ', '.join(where)) if where else '')

    def ev_old(self, text, old_env):
        return self.ev_spec('old(' + text + ')', old_env)


def _loops_in_order(fn):
    out = []

    def rec(stmts):
        for s in stmts:
            if isinstance(s, (ast.For, ast.While)):
                out.append(s)
                rec(s.body)
                rec(s.orelse)
            elif isinstance(s, ast.If):
                rec(s.body)
                rec(s.orelse)
            elif isinstance(s, ast.Try):
                rec(s.body)
                for h in s.handlers:
                    rec(h.body)
                rec(s.orelse)
                rec(s.finalbody)
            elif isinstance(s, ast.With):
                rec(s.body)
    rec(fn.body)
    return out


class PathResult:
    def __init__(self, case, prefix, outcome, obligations, inputs, error=None):
        self.case, self.prefix, self.outcome, self.obligations, self.inputs, self.error = case, prefix, outcome, obligations, inputs, error


def explore(ex, key, c, first_choice=None):
    """enumerate all paths of function `key` (all shape cases); returns list of PathResult and list of unsupported notes.
    first_choice=(i, n): only the paths whose first real choice point takes alternative i mod n (work splitting across processes)"""
    results, unsupported = [], []
    for ci, case in enumerate(c.get('cases', [{}])):
        work = [[]]
        n = 0
        retries = {}
        ex.loop_frames = {}        # inferred loop frames name heap ids: valid for the paths of ONE contract case only
        while work:
            prefix = work.pop()
            n += 1
            if n > MAX_PATHS:
                unsupported.append(f'{key}: more than {MAX_PATHS} paths')
                break
            oracle = Oracle(prefix)
            outcome, err = None, None
            try:
                outcome = ex.run_path(key, c, case, oracle)
            except RetryPath:
                retries[tuple(prefix)] = retries.get(tuple(prefix), 0) + 1
                if retries[tuple(prefix)] <= 20:
                    work.append(prefix)
                    n -= 1
                    continue
                err = 'unsupported: loop frame inference does not converge'
                unsupported.append(f'{key} case {ci}: loop frame inference does not converge')
            except PathEnd as pe:
                outcome = ('cut', str(pe))
            except Unsupported as u:
                err = f'unsupported: {u}'
                unsupported.append(f'{key} case {ci}: {u}')
            except RecursionError:
                err = 'recursion'
                unsupported.append(f'{key} case {ci}: recursion limit')
            work.extend(oracle.new)
            st = ex.st
            pr = PathResult(ci, list(oracle.prefix), outcome, st.obligations if err is None else [], getattr(st, 'inputs', {}), err)
            pr.old_heap = st.old_heap or {}
            pr.final_pc = list(st.pc)
            pr.assumed_ids = set(getattr(st, 'assumed_ids', ()))
            pr.branches = set(getattr(st, 'branches', ()))
            pr.branch_pc = dict(getattr(st, 'branch_pc', {}))
            pr.calls = sorted({n_[1] for n_ in st.notes if n_[0] == 'call'})
            pr.callsites = [n_[1:] for n_ in st.notes if n_[0] == 'callsite']
            results.append(pr)
    # branch-coverage vacuity guard: every outcome of a branch of the function body that some complete path takes must be taken
    # by a complete path whose hypotheses are SATISFIABLE.  Otherwise that part of the code is 'proved' only on paths made infeasible
    # by an assumption (a contradictory callee summary, a ghost effect read in the wrong state ...): a vacuous proof, refused.
    from .solve import abstract_check, inprocess_check, has_big_numeral
    complete = [pr for pr in results if pr.outcome and pr.outcome[0] in ('normal', 'raise') and not pr.error]
    wanted = set()
    for pr in complete:
        wanted |= getattr(pr, 'branches', set())
    covered = set()
    # paths that end where a contracted loop body has been verified ('cut') cover the branch outcomes they took as well: the code on them
    # carries the inv-keep / yield obligations, and a satisfiable one shows that this code is not verified on contradictory paths only
    covering = complete + [pr for pr in results if pr.outcome and pr.outcome[0] == 'cut' and 'loop body verified' in str(pr.outcome[1]) and not pr.error]
    for pr in sorted(covering, key=lambda p: -len(getattr(p, 'branches', ()))):
        br = getattr(pr, 'branches', set())
        if br <= covered:
            continue
        pc = list(pr.final_pc)
        if abstract_check(pc, 1000) == 'unsat':
            continue
        if not has_big_numeral(pc):
            r, _ = inprocess_check(pc, 1.0)
            if r == 'unsat':
                continue
        covered |= br
    if c.get('must_return'):
        # a scenario must have a feasible path that RETURNS (its postconditions are only evaluated there)
        ok_ = False
        for pr in complete:
            if pr.outcome[0] == 'normal' and abstract_check(list(pr.final_pc), 1000) != 'unsat':
                if has_big_numeral(list(pr.final_pc)) or inprocess_check(list(pr.final_pc), 1.0)[0] != 'unsat':
                    ok_ = True
                    break
        if not ok_:
            unsupported.append(f'{key}: no feasible path of the scenario returns - its postconditions were never evaluated (vacuous)')
    def _dead(bk):
        # the outcome was infeasible ALREADY WHEN IT WAS TAKEN (path condition up to and including the decision is unsatisfiable): a dead
        # branch that the exploration normally prunes with the same query - it only got explored because that probe (300 ms) timed out on a
        # busy machine.  Not a vacuous proof: nothing was assumed after the decision to make the path contradictory.
        prs = [pr for pr in complete if bk in getattr(pr, 'branches', ())]
        for pr in prs:
            k = getattr(pr, 'branch_pc', {}).get(bk)
            if k is None:
                return False
            pre = list(pr.final_pc)[:k]
            if abstract_check(pre, 3000) == 'unsat':
                continue
            if has_big_numeral(pre) or inprocess_check(pre, 3.0)[0] != 'unsat':
                return False
        return bool(prs)
    for line, v in sorted(wanted - covered):
        if _dead((line, v)):
            continue
        unsupported.append(f'{key}: the {"true" if v else "false"} outcome of the branch at line {line} is reached only on paths whose assumptions are '
                           f'contradictory (vacuous proof refused: check callee summaries / ghost effects used before it)')
    return results, unsupported
