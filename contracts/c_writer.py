"""Contracts: L-VR visible records, storage unit label, buffered output, byte writer (C01, C10, C15)."""
from contracts.c_segments import LRB_FIELDS, LRB_INV

BW_FIELDS = {'_filename': 'opq:path', '_append': 'bool', '_total_size': 'int'}
BO_FIELDS = {'_bts': 'bytearray', '_filled_size': 'int', '_buffer_size': 'int', '_writer': {'cls': 'ByteWriter', 'fields': BW_FIELDS}}
BO_INV = ['len(self._bts) == self._buffer_size', '0 <= self._filled_size', 'self._filled_size <= self._buffer_size']
SUL_FIELDS = {'sequence_number': 'int', 'set_identifier': 'str', 'max_record_length': 'int'}
DW_FIELDS = {'_visible_record_length': 'int', '_fmt_version': 'bytes', '_sul_written': 'bool',
             '_byte_writer': {'cls': 'ByteWriter', 'fields': BW_FIELDS}}
DW_INV = ['20 <= self._visible_record_length', 'self._visible_record_length <= 16384', 'self._visible_record_length % 2 == 0',
          'len(self._fmt_version) == 2', 'self._fmt_version[0] == 255', 'self._fmt_version[1] == 1']

MODELS = {
    'ByteWriter': {'fields': BW_FIELDS, 'inv': []},
    'BufferedOutput': {'fields': BO_FIELDS, 'inv': BO_INV},
    'StorageUnitLabel': {'fields': SUL_FIELDS, 'inv': []},
    'DLISWriter': {'fields': DW_FIELDS, 'inv': DW_INV},
}

DISK = {'disk': ('bytes', 'fresh_bytes()')}
SUL_TOO_LONG = 'len(str(self.sequence_number)) > 4 or len(str(self.max_record_length)) > 5 or len(self.set_identifier) > 60'

CONTRACTS = {
 'get_ascii_bytes': dict(
    props=['C01', 'C09', 'C12', 'C06'],
    params={'value': 'str', 'required_length': 'int', 'justify_left': 'bool'}, returns='bytes',
    requires=['required_length >= 0'],
    raises={'ValueError': 'len(value) > required_length', 'UnicodeEncodeError': 'len(value) <= required_length and not all_ascii(value)'},
    ensures=[('width', 'len(result) == required_length'),
             ('justified', 'result == ascii_bytes(ljust(value, required_length) if justify_left else rjust(value, required_length))')]),
 'StorageUnitLabel.represent_as_bytes': dict(
    props=['C01', 'C12', 'C14'],
    params={}, returns={'cls': 'LogicalRecordBytes', 'fields': LRB_FIELDS},
    raises={'ValueError': SUL_TOO_LONG, 'UnicodeEncodeError': f'not ({SUL_TOO_LONG}) and not all_ascii(self.set_identifier)'},
    ensures=[('len80', 'len(result._bts) == 80'), ('size', 'result._size == 80'),
             ('layout', 'result._bts == sul_bytes(str(self.sequence_number), str(self.max_record_length), self.set_identifier)')]),
 'DLISWriter._check_visible_record_length': dict(
    props=['C01', 'C15'],
    params={'vrl': 'int'}, returns='none',
    raises={'ValueError': 'vrl < 20 or vrl > 16384 or vrl % 2 != 0'},
    ensures=[]),
 'ByteWriter.write_bytes': dict(
    props=['C10'],
    params={'bts': 'bytes', 'size': 'int?'}, returns='none',
    ghost=DISK, modifies=['self._append', 'self._total_size'], ghost_effects={'disk': "(disk if self._append else b'') + bts"},
    ensures=[('disk', "disk == (old(disk) if old(self._append) else b'') + bts"),
             ('append-mode-after', 'self._append == True'),
             ('total', 'self._total_size == old(self._total_size) + (size if size else len(bts))')]),
 'BufferedOutput.pass_bytes_to_writer': dict(
    props=['C10'],
    params={}, returns='none', ghost=DISK,
    modifies=['self._bts', 'self._filled_size', 'self._writer._append', 'self._writer._total_size'],
    ghost_effects={'disk': "(disk if self._writer._append else b'') + self._bts[:self._filled_size]"},
    ensures=[('moves-exactly-the-filled-part', "disk == (old(disk) if old(self._writer._append) else b'') + old(self._bts[:self._filled_size])"),
             ('empty-after', 'self._filled_size == 0'), ('fresh-buffer', 'len(self._bts) == self._buffer_size'),
             ('append-after', 'self._writer._append == True'),
             ('total', 'self._writer._total_size == old(self._writer._total_size) + (old(self._filled_size) if old(self._filled_size) else 0)')],
    inv_preserved=True),
 'BufferedOutput.add_bytes': dict(
    props=['C10'],
    params={'bts': 'bytes', 'size': 'none'}, returns='none', ghost=DISK,
    requires=['len(bts) <= self._buffer_size', 'self._writer._append == True'],
    modifies=['self._bts', 'self._filled_size', 'self._writer._total_size'],
    ghost_effects={'disk': 'fresh_bytes()'},
    ensures=[('stream-extended', 'disk + self._bts[:self._filled_size] == old(disk + self._bts[:self._filled_size]) + bts'),
             ('disk-is-prefix-at-record-boundary', 'disk == old(disk) or disk == old(disk + self._bts[:self._filled_size])'),
             ('accounting', 'self._writer._total_size + self._filled_size == old(self._writer._total_size + self._filled_size) + len(bts)'),
             ('append-stays', 'self._writer._append == True')],
    inv_preserved=True),
}

LRB_MODEL = {'cls': 'LogicalRecordBytes', 'fields': LRB_FIELDS, 'inv': LRB_INV}
VRL = 'self._visible_record_length'
WLR_INV = ['len(output._bts) == output._buffer_size', '0 <= output._filled_size', 'output._filled_size <= output._buffer_size',
           'output._buffer_size >= self._visible_record_length', 'output._writer._append == True',
           'disk + output._bts[:output._filled_size] == old(disk) + stream',
           'self._byte_writer._total_size + output._filled_size == old(self._byte_writer._total_size) + len(stream)',
           'max_lr_segment_size == self._visible_record_length - 8']
WLR_HAVOC = ['output._bts', 'output._filled_size', 'self._byte_writer._total_size']

CONTRACTS.update({
 'DLISWriter.__init__': dict(
    props=['C01', 'C15'],
    self_fields={}, self_inv=[],
    params={'filename': 'opq:path', 'visible_record_length': 'int'}, returns='none',
    raises={'ValueError': 'visible_record_length < 20 or visible_record_length > 16384 or visible_record_length % 2 != 0'},
    ensures=[('vrl', 'self._visible_record_length == visible_record_length')] + [(f'inv{i}', t) for i, t in enumerate(DW_INV)] +
            [('not-appending', 'self._byte_writer._append == False'), ('zero-total', 'self._byte_writer._total_size == 0'),
             ('sul-not-written', 'self._sul_written == False')]),
 'DLISWriter._check_output_chunk_size': dict(
    props=['C10'],
    params={'output_chunk_size': 'int'}, returns='none',
    raises={'ValueError': 'output_chunk_size < self._visible_record_length'},
    ensures=[]),
 'DLISWriter.write_storage_unit_label': dict(
    props=['C01', 'C10'],
    params={'sul': {'cls': 'StorageUnitLabel', 'fields': SUL_FIELDS}}, returns='none', ghost=DISK,
    modifies=['self._sul_written', 'self._byte_writer._append', 'self._byte_writer._total_size'],
    ghost_effects={'disk': 'fresh_bytes()'},
    raises={'ValueError': SUL_TOO_LONG.replace('self.', 'sul.'),
            'UnicodeEncodeError': f"not ({SUL_TOO_LONG.replace('self.', 'sul.')}) and not all_ascii(sul.set_identifier)"},
    ensures=[('label-first', "disk == (old(disk) if old(self._byte_writer._append) else b'') + sul_bytes(str(sul.sequence_number), str(sul.max_record_length), sul.set_identifier)"),
             ('label-80', "len(disk) == (len(old(disk)) if old(self._byte_writer._append) else 0) + 80"),
             ('flag', 'self._sul_written == True'), ('append-after', 'self._byte_writer._append == True'),
             ('total', 'self._byte_writer._total_size == old(self._byte_writer._total_size) + 80')]),
 # what a logical record hands to the segmenter (verified per concrete record class in c_records.py)
 'LogicalRecord.represent_as_bytes': dict(
    props=[], axiom=True,
    params={}, returns=LRB_MODEL, ensures=[]),
 'DLISWriter.write_logical_records': dict(
    props=['C01', 'C02', 'C10', 'C15', 'C16'],
    params={'logical_records': 'seq[ref]', 'output_chunk_size': 'int?'}, returns='none',
    ref_methods={'represent_as_bytes': 'LogicalRecord.represent_as_bytes'},
    ghost={'disk': ('bytes', 'fresh_bytes()'), 'stream': ('bytes', "b''"), 'nvr': ('int', '0')},
    requires=['self._byte_writer._append == self._sul_written'],
    raises={'RuntimeError': 'not self._sul_written',
            'ValueError': f'self._sul_written and (output_chunk_size if output_chunk_size else 4294967296) < {VRL}'},
    loops=[dict(inv=WLR_INV, havoc=WLR_HAVOC), dict(inv=WLR_INV, havoc=WLR_HAVOC)],
    # C01: every chunk appended to the output is exactly one well-formed visible record tiled by one well-formed segment
    call_requires={'BufferedOutput.add_bytes': [
        ('vr-even', 'len(bts) % 2 == 0'), ('vr-min20-max', f'20 <= len(bts) and len(bts) <= {VRL}'),
        ('vr-declared-length', 'bts[0] * 256 + bts[1] == len(bts)'), ('vr-format-marker', 'bts[2] == 255 and bts[3] == 1'),
        ('segment-tiles-record', 'bts[4] * 256 + bts[5] == len(bts) - 4'),
        ('segment-reserved-bits-clear', '(bts[6] // 2) % 16 == 0'),
        ('segment-pad-count-consistent', 'bts[6] % 2 == 0 or (1 <= bts[len(bts) - 1] and bts[len(bts) - 1] <= len(bts) - 8)')]},
    ensures=[('everything-on-disk', 'disk == old(disk) + stream'),
             ('reported-total-is-file-growth', 'self._byte_writer._total_size == old(self._byte_writer._total_size) + len(stream)')]),
})

# add_bytes as seen from write_logical_records: every chunk appended to the stream is one well-formed visible record
CONTRACTS['BufferedOutput.add_bytes']['requires'] = CONTRACTS['BufferedOutput.add_bytes']['requires']
CONTRACTS['BufferedOutput.add_bytes']['ghost_effects'].update({'stream': 'stream + bts', 'nvr': 'nvr + 1'})
