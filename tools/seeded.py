#!/usr/bin/env python3
"""tools/seeded.py <dir with patch.diff + demo.py> [--props C01,C02] : confirm a seeded change and run the checks against it.
Works on a scratch copy of /repo (never touches /repo).  Prints a JSON summary."""
import json, os, shutil, subprocess, sys, tempfile

HERE = os.path.dirname(os.path.dirname(os.path.abspath(__file__)))


def run(cmd, env=None, cwd=None, timeout=3600):
    p = subprocess.run(cmd, capture_output=True, text=True, env=env, cwd=cwd, timeout=timeout)
    return p.returncode, (p.stdout + p.stderr)


def main():
    d = os.path.abspath(sys.argv[1])
    props = None
    with_tests = '--tests' in sys.argv
    for i, a in enumerate(sys.argv):
        if a == '--props':
            props = sys.argv[i + 1].split(',')
    meta = json.load(open(os.path.join(d, 'meta.json'))) if os.path.exists(os.path.join(d, 'meta.json')) else {}
    props = props or [meta.get('property')]
    scr = tempfile.mkdtemp(prefix='seed.', dir=os.environ.get('VERIF_SCRATCH', '/var/tmp'))
    out = {'dir': d, 'props': props}
    try:
        base, mut = os.path.join(scr, 'base'), os.path.join(scr, 'mut')
        for t in (base, mut):
            subprocess.run(['rsync', '-a', '--exclude', '.git', '--exclude', 'src/tests/outputs', '/repo/', t + '/'], check=True)
        rc, o = run(['patch', '-p1', '-s', '-i', os.path.join(d, 'patch.diff')], cwd=mut)
        out['patch_applies'] = rc == 0
        if rc != 0:
            out['patch_output'] = o[-500:]
            print(json.dumps(out, indent=1)); return
        demo = os.path.join(d, 'demo.py')
        for name, tree in (('base', base), ('mut', mut)):
            env = dict(os.environ); env['PYTHONPATH'] = os.path.join(tree, 'src')
            rc, o = run(['/venv/bin/python', demo], env=env, cwd=scr, timeout=1200)
            out[f'demo_{name}_exit'] = rc
            out[f'demo_{name}_tail'] = o[-300:]
        if with_tests:
            env = dict(os.environ); env['PYTHONPATH'] = os.path.join(mut, 'src')
            rc, o = run(['/venv/bin/python', '-m', 'pytest', '-q', '-p', 'no:cacheprovider', '-x'], env=env, cwd=mut, timeout=3600)
            out['tests_exit'] = rc; out['tests_tail'] = o.strip().splitlines()[-1] if o.strip() else ''
        out['checks'] = {}
        for p in props:
            env = dict(os.environ); env['PYVC_SRC'] = os.path.join(mut, 'src', 'dliswriter')
            rc, o = run(['python3-vt', '-m', 'pyvc.cli', p, '--tier', 'quick'], env=env, cwd=HERE, timeout=3600)
            out['checks'][p] = {'exit': rc, 'lines': [l for l in o.splitlines() if l.startswith(('VIOLATION', 'obligation failed', 'UNDECIDED', 'CHECKER', 'KNOWN', p))][:12]}
    finally:
        shutil.rmtree(scr, ignore_errors=True)
    print(json.dumps(out, indent=1))


main()
