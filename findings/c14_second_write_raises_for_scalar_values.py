"""Regression witness (C14): a DLISFile holding a PARAMETER (or COMPUTATION) with unstructured values could be written once; the write
stored the default dimension [1], and the second write of the same specification raised RuntimeError (shape () vs [1]).  Exit 1 while it reproduces."""
import os
import sys
import tempfile
import numpy as np
from dliswriter import DLISFile
df = DLISFile(); lf = df.add_logical_file(); lf.add_origin('O', file_set_number=1)
ch = lf.add_channel('A', data=np.arange(5.0))
lf.add_frame('F', channels=(ch,))
lf.add_parameter('P', values=[1.5])
lf.add_computation('C', values=[2, 3], zones=[lf.add_zone('Z1'), lf.add_zone('Z2')])
d = tempfile.mkdtemp(); p1, p2 = os.path.join(d, '1.dlis'), os.path.join(d, '2.dlis')
rc = 0
try:
    df.write(p1)
    try:
        df.write(p2)
        same = open(p1, 'rb').read() == open(p2, 'rb').read()
        print('second write succeeded; identical bytes:', same)
        rc = 0 if same else 1
    except RuntimeError as e:
        print('second write of the same specification raised:', e)
        rc = 1
finally:
    for p in (p1, p2):
        os.path.exists(p) and os.remove(p)
    os.rmdir(d)
sys.exit(rc)
