"""Contracts: metadata fidelity (C05): routing of user values to attribute state; write-time defaults; C13 frame index metadata;
C14 cache soundness."""
from contracts.c_attr import ATTR_FIELDS, RC

OPQ_MODELS = {'uval': {'__isinstance__': {'dict': False, 'AttrSetup': False, 'list': False, 'tuple': False}}}    # a user value: not None unless stated, truthiness unknown (0, '', 0.0 are values)

CONTRACTS = {}
for _v in ('none', 'opq:uval'):
    for _u in ('none', 'opq:uval'):
        exp = []
        if _v != 'none':
            exp.append("('value', self.value)")
        if _u != 'none':
            exp.append("('units', self.units)")
        CONTRACTS[f'AttrSetup.items[value={_v != "none"},units={_u != "none"}]'] = dict(
            target='AttrSetup.items', props=['C05'], self_fields={'value': _v, 'units': _u}, params={}, returns='none',
            requires=(['self.value is not None'] if _v != 'none' else []) + (['self.units is not None'] if _u != 'none' else []),
            ensures=[('every-part-that-was-given-is-forwarded-even-if-falsy', '__out__ == (' + ''.join(e + ', ' for e in exp) + ')')])

SPEC_UFS = {'converted': (('opq', 'opq'), 'opq'), 'unit_text': (('opq',), 'opq'), 'rejects_value': (('opq', 'opq'), 'bool'), 'rejects_units': (('opq', 'opq'), 'bool')}
A2 = {'cls': 'Attribute', 'fields': {'_value': 'opq:stored', '_units': 'opq:stored'}}
CONTRACTS.update({
 # summaries of the attribute setters (the converters themselves are per-subtype functions; their contracts are separate)
 'Attribute.value.setter': dict(
    props=[], axiom=True, kind='set', target='Attribute.value', params={'val': 'opq:uval'}, returns='none', modifies=['self._value'],
    raises={'AnyException': 'rejects_value(self, val)'},
    # converters map a value to a value (only None to None): assumed here, the per-subtype converter contracts are separate
    ensures=['self._value == converted(self, val)', 'implies(val is not None, self._value is not None)']),
 'Attribute.units.setter': dict(
    props=[], axiom=True, kind='set', target='Attribute.units', params={'units': 'opq:uval'}, returns='none', modifies=['self._units'],
    raises={'AnyException': 'rejects_units(self, units)'}, ensures=['self._units == units']),
})
ROUTES = {
    'plain-value': ("{'first': 'opq:uval'}", ["self.first._value == converted(self.first, kwargs['first'])", 'self.first._units is old(self.first._units)']),
    'attrsetup-value-and-units': ({'first': {'cls': 'AttrSetup', 'fields': {'value': 'opq:uval', 'units': 'opq:uval'}}},
                                  ["self.first._value == converted(self.first, kwargs['first'].value)", "self.first._units == kwargs['first'].units"]),
    'dict-value-and-units': ({'first': 'dict{value:opq:uval,units:opq:uval}'},
                             ["self.first._value == converted(self.first, kwargs['first']['value'])", "self.first._units == kwargs['first']['units']"]),
    'two-attributes': ({'second': 'opq:uval', 'first': 'opq:uval'},
                       ["self.first._value == converted(self.first, kwargs['first'])", "self.second._value == converted(self.second, kwargs['second'])"]),
}
for _nm, (_kw, _ens) in ROUTES.items():
    if isinstance(_kw, str):
        _kw = eval(_kw)
    CONTRACTS[f'EFLRItem.set_attributes[{_nm}]'] = dict(
        target='EFLRItem.set_attributes', self_class='ZoneItem', props=['C05'],
        self_fields={'name': 'str', 'first': A2, 'second': A2, 'third': A2}, params={'kwargs': _kw}, returns='none',
        requires=["kwargs['first'].value is not None and kwargs['first'].units is not None"] if _nm.startswith('attrsetup') else [],
        may_raise=['AnyException'],
        ensures=[(f'routed-{i}', e) for i, e in enumerate(_ens)] +
                [('attributes-not-named-stay-untouched', 'self.third._value is old(self.third._value) and self.third._units is old(self.third._units)')])
CONTRACTS['EFLRItem.set_attributes[unknown-name]'] = dict(
    target='EFLRItem.set_attributes', self_class='ZoneItem', props=['C05', 'C12'],
    self_fields={'name': 'str', 'first': A2}, params={'kwargs': {'no_such_attribute': 'opq:uval'}}, returns='none',
    raises={'AttributeError': 'True'}, ensures=[])
OPQ_MODELS['stored'] = {'__isinstance__': {}}
OPQ_MODELS['scalar'] = {'__isinstance__': {}, '__notnone__': True}

CONTRACTS['Attribute.representation_code'] = dict(
    props=['C05', 'C14'], kind='get', self_fields={'_representation_code': f'enumv:{RC}?', '_value': 'opq:stored'}, params={}, returns=f'enumv:{RC}?',
    stubs={'inferred_representation_code': dict(returns=f'enumv:{RC}?', raises=True, pure=True)},
    ensures=[('explicit-code-else-the-code-inferred-from-the-CURRENT-value',
              'result == (self._representation_code if self._representation_code is not None else self.inferred_representation_code)'),
             ('reading-the-code-does-not-change-the-specification', 'self._representation_code == old(self._representation_code) and self._value is old(self._value)')])

# ---------------------------------------------------------------------------------------------- C13: frame index metadata
from contracts.c_compat import GC, FLAG
AT = {'cls': 'Attribute', 'fields': {'_value': 'opq:stored', '_units': 'opq:stored', '_label': 'str'}}
ICH = {'cls': 'ChannelItem', 'fields': {'name': 'str', 'units': AT}}
FRAME_FIELDS = {'name': 'str', 'channels': {'cls': 'Attribute', 'fields': {'_value': {'list': [ICH, ICH]}}},
                'index_type': AT, 'spacing': AT, 'index_min': AT, 'index_max': AT, 'direction': AT}
KEEP = lambda a: (f'user-supplied-{a}-is-written-unchanged', f'implies(old(self.{a}._value) is not None, self.{a}._value is old(self.{a}._value))')
IDX = "data_index[:]"
CONTRACTS['FrameItem._setup_frame_params_from_data'] = dict(
    props=['C13', 'C17', 'C05'], globals=GC, self_fields=FRAME_FIELDS,
    params={'data': {'cls': 'SourceDataWrapper', 'fields': {}}}, returns='none',
    closure={'data_index': 'opq:ndarray'},
    stubs={'__getitem__': dict(returns_expr='data_index', pure=True),
           '_compute_spacing_and_direction': dict(returns='tuple[oneof[none,opq:scalar],oneof[none,bool]]', pure=True)},
    may_raise=['AnyException'],
    raises={'RuntimeError': f'self.index_type._value is not None and ({IDX}.ndim != 1 or ({FLAG} and self._compute_spacing_and_direction({IDX})[0] is None))'},
    ensures=[KEEP('index_min'), KEEP('index_max'), KEEP('spacing'), KEEP('direction'),
             ('row-number-index-min-is-1', 'implies(self.index_type._value is None and old(self.index_min._value) is None, self.index_min._value == converted(self.index_min, 1))'),
             ('row-number-index-max-is-the-number-of-rows-written', f'implies(self.index_type._value is None and old(self.index_max._value) is None, self.index_max._value == converted(self.index_max, {IDX}.shape[0]))'),
             ('index-min-is-the-minimum-of-the-index-rows-written', f'implies(self.index_type._value is not None and old(self.index_min._value) is None, self.index_min._value == converted(self.index_min, {IDX}.min()))'),
             ('index-max-is-the-maximum-of-the-index-rows-written', f'implies(self.index_type._value is not None and old(self.index_max._value) is None, self.index_max._value == converted(self.index_max, {IDX}.max()))')])
