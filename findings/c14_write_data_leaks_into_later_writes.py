"""Regression witness (C14): arrays passed to one write() were merged into the specification (`self._data_dict = self._data_dict | data`)
and silently used by later writes that no longer passed them.  Exit 1 while it reproduces."""
import os
import sys
import tempfile
import numpy as np
from dliswriter import DLISFile


def build():
    df = DLISFile(); lf = df.add_logical_file(); lf.add_origin('O', file_set_number=1)
    a, b = lf.add_channel('A'), lf.add_channel('B')
    lf.add_frame('F', channels=(a, b))
    return df


d = tempfile.mkdtemp()
try:
    df = build()
    df.write(os.path.join(d, '1.dlis'), data={'A': np.arange(5.0), 'B': np.arange(5.0) * 2})
    try:
        df.write(os.path.join(d, '2.dlis'), data={'A': np.arange(5.0) + 100})
        print('second write, whose data lack dataset B, succeeded using the B of the first write')
        sys.exit(1)
    except ValueError as e:
        print('second write rejected as a fresh specification would:', e)
        sys.exit(0)
finally:
    for f in os.listdir(d):
        os.remove(os.path.join(d, f))
    os.rmdir(d)
