"""Witness for the open finding (C13): for an index channel with a cast_dtype the frame's INDEX-MIN / INDEX-MAX are computed from the
SOURCE values, not from the values actually written (after the cast).  Exit 1 while it reproduces."""
import sys
import numpy as np
from dliswriter import DLISFile
df = DLISFile(); lf = df.add_logical_file(); lf.add_origin('O', file_set_number=1)
depth = lf.add_channel('DEPTH', data=np.array([1.7, 2.7, 3.7, 4.7]), cast_dtype=np.int32)
fr = lf.add_frame('F', channels=(depth,), index_type='BOREHOLE-DEPTH')
df.generate_logical_records(chunk_size=None)
written = np.array([1.7, 2.7, 3.7, 4.7]).astype(np.int32)
print('INDEX-MIN', fr.index_min.value, 'INDEX-MAX', fr.index_max.value, '| written index values', written.tolist())
sys.exit(1 if (fr.index_min.value, fr.index_max.value) != (written.min(), written.max()) else 0)
