"""Turn a z3 model into concrete python inputs (JSON-able) for the replay runner."""
import z3
from .values import *
from .engine import HObj, HList, HDict


def seq_to_list(e):
    e = z3.simplify(e)
    out = []

    def rec(x):
        k = x.decl().kind() if z3.is_app(x) else None
        if k == z3.Z3_OP_SEQ_CONCAT:
            for c in x.children():
                rec(c)
        elif k == z3.Z3_OP_SEQ_UNIT:
            v = z3.simplify(x.arg(0))
            out.append(v.as_long() if z3.is_int_value(v) else 0)
        elif k == z3.Z3_OP_SEQ_EMPTY:
            pass
        elif z3.is_string_value(x):
            out.extend(ord(c) for c in x.as_string())
        else:
            raise ValueError(f'cannot read sequence model value {x.sexpr()[:80]}')
    rec(e)
    return out


def conc(v, model, heap, depth=0):
    k = v.k
    if k == 'int':
        r = model.eval(v.t, model_completion=True)
        return {'t': 'int', 'v': r.as_long() if z3.is_int_value(r) else 0}
    if k == 'bool':
        return {'t': 'bool', 'v': z3.is_true(model.eval(v.t, model_completion=True))}
    if k == 'none':
        return {'t': 'none'}
    if k in ('bytes', 'str', 'seq'):
        try:
            lst = seq_to_list(model.eval(v.t, model_completion=True))
        except ValueError as e:
            return {'t': 'unreadable', 'why': str(e)}
        if k == 'bytes':
            return {'t': 'bytearray' if v.x == 'bytearray' else 'bytes', 'v': [x % 256 for x in lst]}
        if k == 'str':
            return {'t': 'str', 'v': ''.join(chr(x) if 0 <= x < 0x110000 else '?' for x in lst)}
        return {'t': 'list', 'v': [{'t': 'int', 'v': x} for x in lst]}
    if k == 'const':
        t = v.t
        if isinstance(t, (bytes, bytearray)):
            return {'t': 'bytes', 'v': list(t)}
        if isinstance(t, (str, float, int)):
            return {'t': type(t).__name__, 'v': t}
        return {'t': 'repr', 'v': repr(t)}
    if k == 'tuple':
        return {'t': 'tuple', 'v': [conc(x, model, heap, depth + 1) for x in v.t]}
    if k == 'enum':
        return {'t': 'enum', 'cls': v.t[0], 'member': v.t[1]}
    if k == 'enumv':
        r = model.eval(v.t[1], model_completion=True)
        return {'t': 'enumv', 'cls': v.t[0], 'value': r.as_long() if z3.is_int_value(r) else 0}
    if k == 'cls':
        return {'t': 'cls', 'v': v.t}
    if depth > 6:
        return {'t': 'deep'}
    if k == 'list':
        return {'t': 'list', 'v': [conc(x, model, heap, depth + 1) for x in heap[v.t].items]}
    if k == 'dict':
        return {'t': 'dict', 'v': [[repr(kk), conc(x, model, heap, depth + 1)] for kk, x in heap[v.t].d.items()]}
    if k == 'obj':
        h = heap[v.t]
        return {'t': 'obj', 'cls': h.cls, 'id': v.t, 'fields': {f: conc(x, model, heap, depth + 1) for f, x in h.f.items()}}
    if k == 'opq' and v.x == 'datetime':
        # a datetime whose UTC image has the calendar fields the model chose (built as an aware UTC datetime)
        OPQ = v.t.sort()
        utc = z3.Function('dt_utc', OPQ, OPQ)(v.t)
        f = {}
        for nm in ('year', 'month', 'day', 'hour', 'minute', 'second', 'microsecond'):
            r = model.eval(z3.Function(f'datetime_{nm}', OPQ, z3.IntSort())(utc), model_completion=True)
            f[nm] = r.as_long() if z3.is_int_value(r) else 1
        return {'t': 'datetime_utc', 'v': f}
    if k == 'opq' and v.x in ('val', 'uval', 'stored', 'float', 'scalar'):
        # an opaque scalar: any concrete number will do; distinct model values get distinct numbers
        return {'t': 'float' if v.x == 'float' else 'int', 'v': (abs(hash(str(model.eval(v.t, model_completion=True)))) % 97) + 2}
    if k == 'opq':
        return {'t': 'opaque', 'tag': v.x, 'v': str(model.eval(v.t, model_completion=True))}
    if k == 'ref':
        r = model.eval(v.t, model_completion=True)
        return {'t': 'ref', 'v': r.as_long() if z3.is_int_value(r) else 0}
    return {'t': 'other', 'k': k}


def concrete_inputs(inputs, model, heap):
    out = {}
    for name, v in inputs.items():
        try:
            out[name] = conc(v, model, heap)
        except Exception as e:       # model reading must never crash the check
            out[name] = {'t': 'unreadable', 'why': repr(e)}
    return out
