"""Run-time cross-check of contracts against the real code on random concrete inputs (bounded; never counted as proved).
For every contract whose inputs are plain python data (ints, bools, bytes, str, optionals, simple self fields) random inputs are
generated around the constants of the contract, the REAL function is called by the replay runner and the SAME contract text is
evaluated natively.  A contract that fails natively although all its obligations were discharged means the engine (or an axiom)
is unsound: reported as a checker error, not as a property violation."""
import json
import os
import random
import re
import subprocess

SIMPLE = {'int', 'nat', 'bool', 'bytes', 'bytearray', 'str', 'none'}


def simple_spec(s):
    if not isinstance(s, str):
        return False
    s = s.strip()
    if s.endswith('?'):
        s = s[:-1]
    if s.startswith('oneof['):
        return all(simple_spec(x) for x in s[6:-1].split(','))
    if s.startswith('const:') or s.startswith('member:'):
        return True
    return s in SIMPLE


def constants_of(contract):
    txt = json.dumps({k: v for k, v in contract.items() if k in ('requires', 'raises', 'ensures', 'self_inv')}, default=str)
    nums = {int(x) for x in re.findall(r'(?<![\w.])\d+(?![\w.])', txt) if len(x) < 12}
    return sorted(nums | {0, 1, 2, 12, 127, 128, 255, 256})


def gen(spec, rnd, consts):
    s = spec.strip()
    if s.endswith('?'):
        if rnd.random() < 0.3:
            return {'t': 'none'}
        s = s[:-1]
    if s.startswith('oneof['):
        return gen(rnd.choice(s[6:-1].split(',')), rnd, consts)
    if s.startswith('const:'):
        import ast
        v = ast.literal_eval(s[6:])
        return {'t': type(v).__name__ if v is not None else 'none', 'v': v}
    if s.startswith('member:'):
        cls, m = s[7:].split('.')
        return {'t': 'enum', 'cls': cls, 'member': m}
    if s in ('int', 'nat'):
        c = rnd.choice(consts)
        v = c + rnd.choice([-2, -1, 0, 0, 1, 2]) if rnd.random() < 0.8 else rnd.randint(-70000, 70000)
        return {'t': 'int', 'v': abs(v) if s == 'nat' else v}
    if s == 'bool':
        return {'t': 'bool', 'v': rnd.random() < 0.5}
    if s in ('bytes', 'bytearray'):
        n = rnd.choice([0, 1, 2, 3, 11, 12, 13, 23, 24, 25, 40, 41, rnd.randint(0, 300)])
        return {'t': s, 'v': [rnd.randint(0, 255) for _ in range(n)]}
    if s == 'str':
        n = rnd.choice([0, 1, 2, 5, 60, 61, 65, 66, 127, 128, 255, 256, rnd.randint(0, 300)])
        alphabet = 'ABCDEZ019_-' if rnd.random() < 0.5 else 'abcXYZ 09-_.#' + ('é' if rnd.random() < 0.2 else '')
        return {'t': 'str', 'v': ''.join(rnd.choice(alphabet) for _ in range(n))}
    if s == 'none':
        return {'t': 'none'}
    raise ValueError(s)


def sample_contract(key, c, src, here, n, seed):
    """returns dict(evaluations, confirmed_failures=[...], skipped_reason)"""
    if c.get('axiom') or c.get('lemma') or c.get('stubs') or c.get('closure') or c.get('globals') or c.get('setup') or c.get('on_yield') and False:
        return None
    params = dict(c.get('params', {}))
    for case in c.get('cases', [{}])[:1]:
        params.update(case)
    if not all(simple_spec(v) for v in params.values()):
        return None
    target = c.get('target', key)
    cname = target.rpartition('.')[0]
    selff = c.get('self_fields')
    self_inv = c.get('self_inv')
    obj_cls = c.get('self_class', cname)
    if cname and cname in src.classes:
        from . import registry
        model = registry.load().models.get(cname, {})
        if selff is None:
            selff = model.get('fields')
        if self_inv is None:
            self_inv = model.get('inv', [])
        if c.get('self_from_init'):
            return None
        if selff is None or not all(simple_spec(v) for v in selff.values()):
            return None
    elif cname:
        return None
    rnd = random.Random(f'{seed}:{key}')
    consts = constants_of(c)
    classes = {k: ci.module for k, ci in src.classes.items()}
    texts = lambda lst: [x[1] if isinstance(x, tuple) else x for x in lst]
    named = lambda lst: [[x[0], x[1]] if isinstance(x, tuple) else [str(i), x] for i, x in enumerate(lst)]
    fails, evals, pre_false = [], 0, 0
    module = (src.funcs.get(target.rpartition('.')[2], (None, None))[1] if not cname else src.classes[cname].module)
    for i in range(n):
        inputs = {p: gen(s, rnd, consts) for p, s in params.items()}
        self_name = None
        if cname:
            self_name = 'self'
            inputs['self'] = {'t': 'obj', 'cls': obj_cls, 'id': 1, 'fields': {f: gen(s, rnd, consts) for f, s in selff.items()}}
            # make simple representation invariants true by construction where they are of the form  self.a == len(self.b)
            for inv in (self_inv or []):
                m = re.match(r'^self\.(\w+) == len\(self\.(\w+)\)$', inv.strip())
                if m and inputs['self']['fields'].get(m.group(2), {}).get('t') in ('bytes', 'bytearray', 'str'):
                    inputs['self']['fields'][m.group(1)] = {'t': 'int', 'v': len(inputs['self']['fields'][m.group(2)]['v'])}
                m = re.match(r'^len\(self\.(\w+)\) == (\d+)$', inv.strip())
                if m and inputs['self']['fields'].get(m.group(1), {}).get('t') in ('bytes', 'bytearray'):
                    inputs['self']['fields'][m.group(1)]['v'] = [rnd.randint(0, 255) for _ in range(int(m.group(2)))]
        doc = {'property': '-', 'obligation': f'sample[{key}]', 'function': key, 'target': target, 'module': module, 'kind': c.get('kind', 'plain'),
               'classes': classes, 'self_name': self_name, 'inputs': inputs, 'focus': None,
               'contract': {'requires': texts(c.get('requires', [])), 'self_inv': texts(self_inv or []), 'raises': c.get('raises', {}),
                            'ensures': texts(c.get('ensures', [])), 'ensures_named': named(c.get('ensures', [])), 'ghost': c.get('ghost', {}),
                            'on_yield': c.get('on_yield', {}), 'yield_requires': texts(c.get('yield_requires', [])),
                            'yield_requires_named': named(c.get('yield_requires', [])), 'may_raise': c.get('may_raise', []),
                            'is_generator': bool(c.get('on_yield') or c.get('yield_requires'))},
               'spec_module': os.path.join(here, 'spec', 'rp66.py')}
        path = os.path.join(os.environ.get('VERIF_SCRATCH', '/var/tmp'), f'sample_{os.getpid()}.json')
        json.dump(doc, open(path, 'w'))
        env = dict(os.environ)
        env['PYTHONPATH'] = os.path.dirname(src.root) + os.pathsep + env.get('PYTHONPATH', '')
        try:
            p = subprocess.run(['/venv/bin/python', os.path.join(here, 'replay', 'run_replay.py'), path], capture_output=True, text=True, timeout=120, env=env)
            r = json.loads((p.stdout.strip().splitlines() or ['{}'])[-1])
        except Exception as e:
            r = {'harness_error': True, 'notes': [repr(e)]}
        finally:
            try:
                os.unlink(path)
            except OSError:
                pass
        if any('precondition false' in x for x in r.get('notes', [])):
            pre_false += 1
            continue
        if r.get('harness_error'):
            continue
        evals += 1
        if r.get('confirmed'):
            fails.append({'inputs': inputs, 'failed': r.get('failed_clauses'), 'observed': r.get('observed')})
            if len(fails) >= 2:
                break
    return {'function': key, 'evaluations': evals, 'precondition_false': pre_false, 'failures': fails}
