"""Contracts: C05 step 1 - every LogicalFile.add_* method forwards each keyword value to the item constructor under the right name
(generated mechanically from the method signatures in the real source; documented renames only)."""
import ast
from pyvc.source import Source

_src = Source()
RENAME = {'eq_type': '_type', 'message_type': '_type', 'measurement_type': 'type'}
SKIP = {'add_origin', 'add_channel', 'add_no_format_frame_data', 'add_logical_file'}
NOT_FORWARDED = {'set_name', 'name', 'origin_reference'}

CONTRACTS = {}
_ci = _src.classes['LogicalFile']
for _mname, _ent in sorted(_ci.methods.items()):
    if not _mname.startswith('add_') or _mname in SKIP or 'plain' not in _ent:
        continue
    _fn = _ent['plain']
    _params = [a.arg for a in _fn.args.args[1:]]
    _pspec = {p: 'opq:uval' for p in _params}
    _pspec['name'] = 'str'
    _pspec['set_name'] = 'none'
    _pspec['origin_reference'] = 'int?'
    if _mname == 'add_frame':
        _pspec['channels'] = {'list': [{'cls': 'ChannelItem', 'fields': {'name': 'str'}}]}
    _ens = [('name-forwarded', "stub_call_init['name'] == name"),
            ('item-goes-into-the-set-fetched-for-this-call', "stub_call_init['parent'] is stub_result_get_or_make_set"),
            ('explicit-origin-else-the-default-origin-of-the-logical-file',
             "stub_call_init['kwargs']['origin_reference'] == (origin_reference if origin_reference else self.default_origin_reference)")]
    for p in _params:
        if p in NOT_FORWARDED:
            continue
        kw = RENAME.get(p, p)
        _ens.append((f'{p}-reaches-the-constructor-as-{kw}', f"stub_call_init['kwargs']['{kw}'] is {p}"))
    _ens.append(('nothing-else-is-passed', f"len(stub_call_init['kwargs']) == {len([p for p in _params if p not in NOT_FORWARDED]) + 1}"))
    CONTRACTS[f'LogicalFile.{_mname}[forwarding]'] = dict(
        target=f'LogicalFile.{_mname}', props=['C05', 'C07', 'C20', 'C18'],
        # frame (C20, C18): apart from fetching the set and building the item, the method writes nothing - neither when it returns
        # nor when the constructor rejects the call; the logical file, the physical file and every argument object are as at entry
        modifies=[], exc_modifies=[],
        self_fields={'physical_file': {'cls': 'DLISFile', 'fields': {'_eflr_sets': {'cls': 'EFLRSetsDict', 'fields': {}}}},
                     '_eflr_sets': {'cls': 'EFLRSetsDict', 'fields': {}}, 'default_origin_reference': 'int?'},
        params=_pspec, returns='opq:item',
        stubs={'get_or_make_set': dict(returns='opq:eflrset', pure=True), 'try_add_set': dict(returns='bool'),
               '__init__': dict(returns='none', raises=True, capture=True)},
        may_raise=['AnyException', 'TypeError', 'ValueError'],
        ensures=_ens)
OPQ_MODELS = {'item': {'__isinstance__': {}}}

# add_origin: same forwarding obligations, plus FILE-ID = the header id and the origin reference = explicit one or the next free one
_fn = _ci.methods['add_origin']['plain']
_params = [a.arg for a in _fn.args.args[1:]]
_pspec = {p: 'opq:uval' for p in _params}
_pspec.update({'name': 'str', 'set_name': 'none', 'origin_reference': 'int?'})
_ORG = {'cls': 'OriginItem', 'fields': {'name': 'str', '_origin_reference': 'int'}}
_ens = [('name-forwarded', "stub_call_init['name'] == name"),
        ('file-id-of-the-origin-is-the-header-id', "stub_call_init['kwargs']['file_id'] == self.file_header_item.header_id"),
        ('origin-reference-explicit-else-next-free', "stub_call_init['origin_reference'] == (origin_reference if origin_reference else stub_result_next_available_origin_ref)")]
for p in _params:
    if p in NOT_FORWARDED:
        continue
    _ens.append((f'{p}-reaches-the-constructor-as-{p}', f"stub_call_init['kwargs']['{p}'] is {p}"))
CONTRACTS['LogicalFile.add_origin[forwarding]'] = dict(
    target='LogicalFile.add_origin', props=['C05', 'C09', 'C07'],
    self_fields={'physical_file': {'cls': 'DLISFile', 'fields': {'_eflr_sets': {'cls': 'EFLRSetsDict', 'fields': {}}}},
                 '_eflr_sets': {'cls': 'EFLRSetsDict', 'fields': {'origins_value': {'list': [_ORG, _ORG]}}},
                 'file_header_item': {'cls': 'FileHeaderItem', 'fields': {'header_id': 'str'}}},
    params=_pspec, returns='opq:item',
    stubs={'get_or_make_set': dict(returns='opq:eflrset', pure=True), 'try_add_set': dict(returns='bool'),
           'get_all_items_for_set_type': dict(returns_expr_on_receiver='origins_value'),
           'next_available_origin_ref': dict(returns='int', raises=True, pure=True),
           '__init__': dict(returns='none', raises=True, capture=True)},
    may_raise=['AnyException', 'StubException'], ensures=_ens)
