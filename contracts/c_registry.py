"""Contracts: L-REG registries, identity (C07), rejected calls (C20), isolation (C18)."""
SET_MODEL = {'cls': 'EFLRSet', 'fields': {'_eflr_item_list': 'seq[ref]', 'set_name': 'str?'}}
REF_FIELDS = {'name': 'str', '_copy_number': 'int', '_origin_reference': 'int?'}
SAME_NAME = 'len(list(filter(lambda o: o.name == self.name, {})))'

CONTRACTS = {
 'EFLRSet.get_all_eflr_items': dict(
    props=['C07'], self_fields={'_eflr_item_list': 'seq[ref]'}, params={}, returns='seq[ref]',
    ensures=[('copy-of-the-list', 'result == self._eflr_item_list'),
             # callers test the result for emptiness (`if not items`): it must be a list, whose truth value says whether there are objects
             ('its-truth-value-tells-whether-the-set-has-objects', 'bool(result) == (len(self._eflr_item_list) > 0)')]),
 'EFLRSet.n_items': dict(
    props=['C07', 'C17'], self_fields={'_eflr_item_list': 'seq[ref]'}, params={}, returns='int',
    ensures=[('count', 'result == len(self._eflr_item_list)')]),
 'EFLRItem._compute_copy_number': dict(
    props=['C07', 'C12', 'C16'], self_class='ZoneItem',
    self_fields={'name': 'str', '_parent': SET_MODEL}, params={}, returns='int',
    ref_fields=REF_FIELDS,
    ensures=[('copy-number-is-the-number-of-other-same-named-objects-of-the-set',
              'result == len(list(filter(lambda o: o.name == self.name and o is not self, self._parent._eflr_item_list)))')]),
}

from contracts.c_compat import GC, FLAG
from contracts.c_eflr import SCHEMAS

LIVE_SET = {'cls': 'ZoneSet', 'fields': {'_eflr_item_list': 'seqlist[ref]', 'set_name': 'str?'}}
ITEMS = 'parent._eflr_item_list'
UNCHANGED = f'{ITEMS} == old({ITEMS})'

CONTRACTS.update({
 'EFLRSet.register_item': dict(
    props=['C20', 'C07'], self_class='ZoneSet', self_fields=LIVE_SET['fields'],
    params={'child': 'oneof[obj:ZoneItemT,obj:Attribute]'}, returns='none',
    modifies=['self._eflr_item_list'], exc_modifies=[],
    raises={'TypeError': 'not isinstance(child, self.item_type)'},
    ensures=[('appended-last', 'self._eflr_item_list == old(self._eflr_item_list) + [child]')],
    exc_ensures=[('rejected-child-not-registered', 'self._eflr_item_list == old(self._eflr_item_list)')]),
 'EFLRItem.__init__[ZoneItem]': dict(
    target='EFLRItem.__init__', self_class='ZoneItem', props=['C20', 'C07', 'C17', 'C12'], globals=GC,
    self_fields={a: {'cls': 'Attribute', 'fields': {'parent_eflr': 'none'}} for a in SCHEMAS['ZoneItem']},
    params={'name': 'str', 'parent': LIVE_SET, 'origin_reference': 'int?', 'kwargs': {}}, returns='none',
    ref_fields=REF_FIELDS, requires=['not in_seq(self, parent._eflr_item_list)'],
    stubs={'set_attributes': dict(returns='none', raises=True)},
    raises={'ValueError': f'{FLAG} and not hc_name_ok(name)'},
    ensures=[('registered-exactly-once-at-the-end', f'{ITEMS} == old({ITEMS}) + [self]'),
             ('name-kept', 'self.name == name'), ('origin-kept', 'self._origin_reference == origin_reference'),
             ('copy-number-counts-earlier-same-named-objects', 'self._copy_number == len(list(filter(lambda o: o.name == self.name and o is not self, old(' + ITEMS + '))))'),
             ('only-compatible-names-in-the-mode', f'implies({FLAG}, hc_name_ok(self.name))')],
    # frame (C20): the constructor writes the object under construction, the back-pointer of its own attributes and the item list of
    # its set - nothing else; when it rejects the call only the (discarded) object itself was written
    modifies=['self.*', 'self.*.parent_eflr', 'parent._eflr_item_list'], exc_modifies=['self.*', 'self.*.parent_eflr'],
    exc_ensures=[('rejected-call-leaves-the-set-unchanged', UNCHANGED)]),
})


def extra_c07(tier, seed, src):
    from contracts.lemmas import c07_identity_lemmas
    return {'obligations': c07_identity_lemmas()}


EXTRAS = {'C07': extra_c07}

CHSET = {'cls': 'ChannelSet', 'fields': {'_eflr_item_list': 'seqlist[ref]', 'set_name': 'str?'}}
CONTRACTS['ChannelItem.__init__[verified]'] = dict(
    target='ChannelItem.__init__', props=['C20', 'C08'], globals=GC, self_fields={},
    params={'name': 'str', 'parent': CHSET, 'dataset_name': 'str?', 'cast_dtype': 'oneof[none,opq:dtype]', 'kwargs': {}}, returns='none',
    ref_fields=REF_FIELDS, requires=['not in_seq(self, parent._eflr_item_list)'],
    may_raise=['ValueError', 'AnyException'],
    ensures=[('registered', f'{ITEMS} == old({ITEMS}) + [self]'), ('dataset-name-kept', 'self._dataset_name == dataset_name'),
             ('cast-dtype-kept', 'self._cast_dtype is cast_dtype'),
             # the two facts the summary ChannelItem.__init__ hands to add_channel
             ('name-kept', 'self.name == name'), ('belongs-to-the-set-it-was-given', 'self._parent is parent')],
    modifies=['self.*', 'self.*.parent_eflr', 'parent._eflr_item_list'], exc_modifies=['self.*', 'self.*.parent_eflr'],
    exc_ensures=[('rejected-channel-leaves-the-set-unchanged', UNCHANGED)])

# scenario (client-level harness, /verif/scenarios/s_c20.py) over the REAL set and item classes: a rejected object consumes no copy
# number and is not in the set; the accepted same-named objects are numbered 0, 1
CONTRACTS['scenario_rejected_item_then_accepted_item'] = dict(
    props=['C20', 'C07', 'C14'], globals=GC, params={'name': 'str'}, returns=None, inline_all=True, must_return=True,
    requires=['len(name) > 0'], may_raise=['ValueError', 'UnicodeEncodeError'],
    ensures=[('the-bad-value-is-rejected', 'result[0] == True'),
             ('copy-numbers-as-if-the-rejected-call-had-never-been-made', 'result[1] == 0 and result[2] == 1'),
             ('only-the-accepted-objects-are-in-the-set', 'result[3] == 2')])

CONTRACTS['scenario_identity_of_same_named_channels'] = dict(
    props=['C07'], globals=GC, params={'name': 'str'}, returns=None, inline_all=True, must_return=True,
    requires=['len(name) > 0'], may_raise=['ValueError', 'UnicodeEncodeError'],
    ensures=[('same-named-channels-get-copy-numbers-0-and-1', 'result[0] == 0 and result[1] == 1'),
             ('both-carry-the-reference-of-the-defining-origin', 'result[2] == result[4] and result[3] == result[4]'),
             ('both-are-channels-of-the-logical-file', 'result[5] == 2')])
CONTRACTS['scenario_rejected_add_then_valid_add'] = dict(
    props=['C20', 'C14', 'C07'], globals=GC, params={'name': 'str'}, returns=None, inline_all=True, must_return=True,
    requires=['len(name) > 0'], may_raise=['ValueError', 'UnicodeEncodeError'],
    ensures=[('rejected', 'result[0] == True'), ('the-valid-call-is-numbered-as-if-the-rejected-one-had-never-been-made', 'result[1] == 0'),
             ('only-the-accepted-object-is-registered', 'result[2] == 1')])

_SC = dict(globals=GC, returns=None, inline_all=True, must_return=True, may_raise=['ValueError', 'UnicodeEncodeError'])
CONTRACTS['scenario_identity_after_origin_back_fill'] = dict(
    _SC, props=['C07', 'C12', 'C16'], params={'name': 'str'}, requires=['len(name) > 0'],
    ensures=[('both-end-up-under-the-origin-that-exists', 'result[0] == result[4] and result[2] == result[4]'),
             ('same-type-same-origin-same-name-need-different-copy-numbers', 'result[1] != result[3]')])
CONTRACTS['scenario_rejected_origin_then_valid_origin'] = dict(
    _SC, props=['C20', 'C07', 'C09'], params={'name': 'str'}, requires=['len(name) > 0'],
    ensures=[('rejected', 'result[0] == True'),
             ('waiting-objects-and-the-header-get-the-reference-of-the-origin-that-exists', 'result[1] == result[2] and result[3] == result[2]'),
             ('only-the-accepted-origin-is-registered', 'result[4] == 1')])
CONTRACTS['scenario_attrsetup_with_falsy_value'] = dict(
    _SC, props=['C05', 'C13', 'C12'], params={'name': 'str'}, requires=['len(name) > 0'],
    ensures=[('a-zero-given-through-AttrSetup-dict-or-keyword-is-assigned-with-its-units',
              "result[0] == 0 and result[1] == 'm' and result[2] == 0 and result[3] == 'm' and result[4] == 0")])
CONTRACTS['scenario_representation_code_follows_the_current_value'] = dict(
    _SC, props=['C05', 'C14'], params={'name': 'str'}, requires=['len(name) > 0'],
    ensures=[('text-is-ASCII-then-an-integer-is-SLONG', 'result[0].value == 20 and result[1].value == 14')])
CONTRACTS['scenario_first_origin_carries_the_header_id'] = dict(
    _SC, props=['C09', 'C07'], params={'header_id': 'str'}, requires=['len(header_id) > 0 and len(header_id) <= 65'],
    ensures=[('file-id-of-the-defining-origin-is-the-header-id', 'result[0] == result[1] and result[1] == header_id'),
             ('the-first-origin-is-the-defining-origin', 'result[2] == True'),
             ('an-explicit-reference-is-kept', 'result[3] == 5'),
             ('a-later-origin-gets-another-reference-and-not-0', 'result[4] != result[3] and result[4] != 0')])
CONTRACTS['scenario_names_in_and_outside_the_mode'] = dict(
    _SC, props=['C17'], params={'name': 'str'}, requires=['len(name) > 0', 'not hc_name_ok(name)', 'not global_config.high_compat_mode'],
    ensures=[('a-non-conforming-name-is-rejected-inside-the-mode-and-accepted-outside', 'result[0] == True and result[2] == 1'),
             ('mode-off-again', 'result[1] == False')])
CONTRACTS['scenario_rejected_channel_keeps_no_data'] = dict(
    _SC, props=['C20', 'C18', 'C12'], params={'name': 'str', 'arr': 'opq:ndarray'}, requires=['len(name) > 0'],
    ensures=[('rejected', 'result[0] == True'), ('the-array-of-the-rejected-call-is-not-kept', 'result[1] == 0'),
             ('the-retry-is-numbered-and-named-as-a-first-channel', 'result[2] == 0 and result[3] == name')])

CONTRACTS['scenario_two_logical_files_with_their_own_sets'] = dict(
    _SC, props=['C18', 'C07', 'C12'], params={'name': 'str'}, requires=['len(name) > 0'],
    ensures=[('each-logical-file-holds-exactly-its-own-channel', 'result[0] == 1 and result[1] == 1 and result[2] == True and result[3] == True'),
             ('same-name-in-different-logical-files-does-not-bump-copy-numbers', 'result[4] == 0 and result[5] == 0'),
             ('logical-files-in-creation-order', 'result[6] == True and result[7] == True'),
             ('each-has-its-own-origin', 'result[8] == 1 and result[9] == 1')])
CONTRACTS['scenario_rejected_frame_leaves_no_frame'] = dict(
    _SC, props=['C20', 'C12'], params={'name': 'str'}, requires=['len(name) > 0'],
    ensures=[('an-empty-channel-list-is-rejected', 'result[0] == True'),
             ('only-the-accepted-frame-exists-numbered-0-and-lists-the-channel-given', 'result[1] == 1 and result[2] == 0 and result[3] == True')])
CONTRACTS['scenario_values_assigned_at_creation_and_later'] = dict(
    _SC, props=['C05'], params={'name': 'str', 'text': 'str'}, requires=['len(name) > 0'],
    ensures=[('keywords-reach-their-own-attributes', "result[0] == text and result[1] == 'TM' and result[2] == 'GEN'"),
             ('values-and-units-assigned-later-are-kept', "result[3] == text and result[4] == 3 and result[5] == 'm'"),
             ('an-attribute-never-assigned-stays-absent', 'result[6] is None')])
CONTRACTS['scenario_long_name_text_then_object'] = dict(
    _SC, props=['C05', 'C07'], params={'name': 'str', 'text': 'str'}, requires=['len(name) > 0', 'len(text) > 0'],
    ensures=[('a-text-long-name-is-ASCII-and-a-LONG-NAME-object-assigned-later-is-written-as-a-reference', 'result[0].value == 20 and result[1].value == 23'),
             ('the-reference-is-the-object-the-user-passed', 'result[2] == True')])
CONTRACTS['scenario_no_format_records_per_logical_file_in_order'] = dict(
    _SC, props=['C16', 'C18'], params={'name': 'str', 'p1': 'str', 'p2': 'str', 'p3': 'str'}, requires=['len(name) > 0'],
    ensures=[('each-record-once-and-in-the-order-of-addition-also-when-two-objects-alternate',
              'result[0] == 3 and result[1] == True and result[2] == True and result[3] == True'),
             ('each-record-refers-to-the-object-it-was-added-under', 'result[4] == True and result[5] == True and result[6] == True'),
             ('payload-kept', 'result[7] == p1'),
             ('the-other-logical-file-holds-none-of-them', 'result[8] == 0')])

# C20 for item classes with a constructor of their own: whatever the subclass does around the base constructor (checks of its own before
# or AFTER super().__init__ - round 7, C20-N), a call it rejects leaves the set as it was
CONTRACTS['ZoneItem.__init__[verified]'] = dict(
    target='ZoneItem.__init__', props=['C20'], globals=GC, self_fields={},
    params={'name': 'str', 'parent': LIVE_SET, 'kwargs': {'domain': 'oneof[const:"TIME",const:"BOREHOLE-DEPTH"]', 'maximum': 'oneof[int,opq:datetime]', 'minimum': 'oneof[int,opq:datetime]'}}, returns='none',
    ref_fields=REF_FIELDS, requires=['not in_seq(self, parent._eflr_item_list)'],
    may_raise=['ValueError', 'AnyException'],
    ensures=[('registered', f'{ITEMS} == old({ITEMS}) + [self]'), ('name-kept', 'self.name == name')],
    modifies=['self.*', 'self.*.parent_eflr', 'parent._eflr_item_list'], exc_modifies=['self.*', 'self.*.parent_eflr'],
    exc_ensures=[('rejected-zone-leaves-the-set-unchanged', UNCHANGED)])
