"""Contracts: L-REG registries, identity (C07), rejected calls (C20), isolation (C18)."""
SET_MODEL = {'cls': 'EFLRSet', 'fields': {'_eflr_item_list': 'seq[ref]', 'set_name': 'str?'}}
REF_FIELDS = {'name': 'str', '_copy_number': 'int', '_origin_reference': 'int?'}
SAME_NAME = 'len(list(filter(lambda o: o.name == self.name, {})))'

CONTRACTS = {
 'EFLRSet.get_all_eflr_items': dict(
    props=['C07'], self_fields={'_eflr_item_list': 'seq[ref]'}, params={}, returns='seq[ref]',
    ensures=[('copy-of-the-list', 'result == self._eflr_item_list'),
             # callers test the result for emptiness (`if not items`): it must be a list, whose truth value says whether there are objects
             ('its-truth-value-tells-whether-the-set-has-objects', 'bool(result) == (len(self._eflr_item_list) > 0)')]),
 'EFLRSet.n_items': dict(
    props=['C07', 'C17'], self_fields={'_eflr_item_list': 'seq[ref]'}, params={}, returns='int',
    ensures=[('count', 'result == len(self._eflr_item_list)')]),
 'EFLRItem._compute_copy_number': dict(
    props=['C07', 'C12', 'C16'], self_class='ZoneItem',
    self_fields={'name': 'str', '_parent': SET_MODEL}, params={}, returns='int',
    ref_fields=REF_FIELDS,
    ensures=[('copy-number-is-the-number-of-other-same-named-objects-of-the-set',
              'result == len(list(filter(lambda o: o.name == self.name and o is not self, self._parent._eflr_item_list)))')]),
}

from contracts.c_compat import GC, FLAG
from contracts.c_eflr import SCHEMAS

LIVE_SET = {'cls': 'ZoneSet', 'fields': {'_eflr_item_list': 'seqlist[ref]', 'set_name': 'str?'}}
ITEMS = 'parent._eflr_item_list'
UNCHANGED = f'{ITEMS} == old({ITEMS})'

CONTRACTS.update({
 'EFLRSet.register_item': dict(
    props=['C20', 'C07'], self_class='ZoneSet', self_fields=LIVE_SET['fields'],
    params={'child': 'oneof[obj:ZoneItemT,obj:Attribute]'}, returns='none',
    modifies=['self._eflr_item_list'], exc_modifies=[],
    raises={'TypeError': 'not isinstance(child, self.item_type)'},
    ensures=[('appended-last', 'self._eflr_item_list == old(self._eflr_item_list) + [child]')],
    exc_ensures=[('rejected-child-not-registered', 'self._eflr_item_list == old(self._eflr_item_list)')]),
 'EFLRItem.__init__[ZoneItem]': dict(
    target='EFLRItem.__init__', self_class='ZoneItem', props=['C20', 'C07', 'C17', 'C12'], globals=GC,
    self_fields={a: {'cls': 'Attribute', 'fields': {'parent_eflr': 'none'}} for a in SCHEMAS['ZoneItem']},
    params={'name': 'str', 'parent': LIVE_SET, 'origin_reference': 'int?', 'kwargs': {}}, returns='none',
    ref_fields=REF_FIELDS, requires=['not in_seq(self, parent._eflr_item_list)'],
    stubs={'set_attributes': dict(returns='none', raises=True)},
    raises={'ValueError': f'{FLAG} and not hc_name_ok(name)'},
    ensures=[('registered-exactly-once-at-the-end', f'{ITEMS} == old({ITEMS}) + [self]'),
             ('name-kept', 'self.name == name'), ('origin-kept', 'self._origin_reference == origin_reference'),
             ('copy-number-counts-earlier-same-named-objects', 'self._copy_number == len(list(filter(lambda o: o.name == self.name and o is not self, old(' + ITEMS + '))))'),
             ('only-compatible-names-in-the-mode', f'implies({FLAG}, hc_name_ok(self.name))')],
    # frame (C20): the constructor writes the object under construction, the back-pointer of its own attributes and the item list of
    # its set - nothing else; when it rejects the call only the (discarded) object itself was written
    modifies=['self.*', 'self.*.parent_eflr', 'parent._eflr_item_list'], exc_modifies=['self.*', 'self.*.parent_eflr'],
    exc_ensures=[('rejected-call-leaves-the-set-unchanged', UNCHANGED)]),
})


def extra_c07(tier, seed, src):
    from contracts.lemmas import c07_identity_lemmas
    return {'obligations': c07_identity_lemmas()}


EXTRAS = {'C07': extra_c07}

CHSET = {'cls': 'ChannelSet', 'fields': {'_eflr_item_list': 'seqlist[ref]', 'set_name': 'str?'}}
CONTRACTS['ChannelItem.__init__[verified]'] = dict(
    target='ChannelItem.__init__', props=['C20', 'C08'], globals=GC, self_fields={},
    params={'name': 'str', 'parent': CHSET, 'dataset_name': 'str?', 'cast_dtype': 'oneof[none,opq:dtype]', 'kwargs': {}}, returns='none',
    ref_fields=REF_FIELDS, requires=['not in_seq(self, parent._eflr_item_list)'],
    may_raise=['ValueError', 'AnyException'],
    ensures=[('registered', f'{ITEMS} == old({ITEMS}) + [self]'), ('dataset-name-kept', 'self._dataset_name == dataset_name'),
             ('cast-dtype-kept', 'self._cast_dtype is cast_dtype')],
    modifies=['self.*', 'self.*.parent_eflr', 'parent._eflr_item_list'], exc_modifies=['self.*', 'self.*.parent_eflr'],
    exc_ensures=[('rejected-channel-leaves-the-set-unchanged', UNCHANGED)])
