"""Contracts: L-ENC (uvari), L-SEG (segments), L-VR (visible records)."""
N = '(n_bytes if n_bytes is not None else self._size - start_pos)'

LRB_FIELDS = {'_bts': 'bytes', '_size': 'int', '_lr_type_struct': 'bytes', '_is_eflr': 'bool'}
LRB_INV = ['self._size == len(self._bts)', 'len(self._lr_type_struct) == 1']

MODELS = {
    'LogicalRecordBytes': {'fields': LRB_FIELDS, 'inv': LRB_INV},
}

CONTRACTS = {
 'LogicalRecordBytes.make_segment': dict(
    props=['C01', 'C02'],
    params={'start_pos': 'int', 'n_bytes': 'int?'},
    requires=['0 <= start_pos', 'start_pos <= self._size', 'n_bytes is None or 0 <= n_bytes'],
    returns='tuple[bytes,int]',
    raises={'ValueError': f'(n_bytes is not None and start_pos + n_bytes > self._size) or {N} < 12',
            'struct.error': f'{N} + 4 + {N} % 2 > 65535'},
    ensures=[
      ('size', 'result[1] == len(result[0])'),
      ('even', 'result[1] % 2 == 0'),
      ('min16', 'result[1] >= 16'),
      ('sizeformula', f'result[1] == {N} + 4 + ({N} % 2)'),
      ('declared-length', 'result[0][0] * 256 + result[0][1] == result[1]'),
      ('attr-byte', f'result[0][2] == (128 if self._is_eflr else 0) + (0 if start_pos == 0 else 64) + (0 if start_pos + {N} == self._size else 32) + (result[1] - 4 - {N})'),
      ('type-byte', 'result[0][3] == self._lr_type_struct[0]'),
      ('payload', f'result[0][4:4 + {N}] == self._bts[start_pos:start_pos + {N}]'),
      ('padcount', f'(result[1] - 4 - {N}) == 0 or result[0][result[1] - 1] == 1'),
    ]),
 'DLISWriter._make_visible_record': dict(
    props=['C01'],
    self_fields={'_visible_record_length': 'int', '_fmt_version': 'bytes'},
    self_inv=['20 <= self._visible_record_length', 'self._visible_record_length <= 16384', 'self._visible_record_length % 2 == 0',
              'len(self._fmt_version) == 2', 'self._fmt_version[0] == 255', 'self._fmt_version[1] == 1'],
    params={'body': 'bytes', 'size': 'int?'},
    requires=['size is None or size == len(body)'],
    returns='bytes',
    raises={'ValueError': 'len(body) + 4 > self._visible_record_length'},
    ensures=['len(result) == len(body) + 4', 'result[0] * 256 + result[1] == len(body) + 4', 'result[2] == 255', 'result[3] == 1', 'result[4:] == body'],
 ),
 'LogicalRecordBytes.make_segments': dict(
    props=['C02', 'C15'],
    params={'max_n_bytes': 'int'},
    requires=['max_n_bytes >= 12', 'max_n_bytes % 2 == 0', 'max_n_bytes <= 16376', 'self._size == 0 or self._size >= 12'],
    returns='none',
    raises={'ValueError': 'max_n_bytes < 24'},
    ghost={'acc': ('bytes', "b''"), 'k': ('int', '0'), 'done': ('bool', 'False')},
    yield_requires=[('notdone', 'not done'), ('fits', 'yielded[1] <= max_n_bytes + 4'),
                    ('pred-bit', '(yielded[0][2] // 64) % 2 == (0 if k == 0 else 1)'), ('eflr-bit', 'yielded[0][2] // 128 == (1 if self._is_eflr else 0)')],
    on_yield={'acc': 'acc + yielded[0][4:yielded[1] - (yielded[0][2] % 2)]', 'k': 'k + 1', 'done': '(yielded[0][2] // 32) % 2 == 0'},
    loops=[dict(inv=['start_pos + remaining_size == self._size', '0 <= start_pos', '0 <= remaining_size', 'remaining_size == 0 or remaining_size >= 12',
             'acc == self._bts[0:start_pos]', '(k == 0) == (start_pos == 0)', 'done == (remaining_size == 0 and k > 0)', 'k >= 0'],
             variant='remaining_size')],
    ensures=['acc == self._bts', 'self._size == 0 or done', '(k == 0) == (self._size == 0)'],
 ),
}
