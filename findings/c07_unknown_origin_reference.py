"""Witness for the open finding P18 (C07): an explicit origin_reference that names no ORIGIN object of the logical file is accepted.
Exit 1 while it is accepted."""
import sys
from dliswriter import DLISFile
df = DLISFile(); lf = df.add_logical_file(); lf.add_origin('O', file_set_number=1)
try:
    c = lf.add_channel('A', origin_reference=7)
except Exception as e:
    print('rejected:', type(e).__name__); sys.exit(0)
refs = [o.origin_reference for o in lf.origins]
print('channel origin', c.origin_reference, 'origins of the file', refs)
sys.exit(1 if c.origin_reference not in refs else 0)
