"""Witness for the open finding (C17, last clause: "outside it the same inputs are accepted with a warning"): outside the
high-compatibility context a name that does not match [A-Z0-9_-]+ is accepted WITHOUT any warning (validate_string returns silently),
whereas the other breaches (signed-integer data, unassigned channels, non-uniform spacing, enumerations) are logged as warnings.
Exit 1 while it reproduces."""
import logging
import sys
import numpy as np
from dliswriter import DLISFile, high_compatibility_mode


class Collect(logging.Handler):
    def __init__(self):
        super().__init__(level=logging.WARNING); self.records = []

    def emit(self, record):
        self.records.append(record.getMessage())


h = Collect(); logging.getLogger().addHandler(h); logging.getLogger('dliswriter').addHandler(h)
# inside the mode the name is a breach
try:
    with high_compatibility_mode():
        DLISFile().add_logical_file().add_origin('O', file_set_number=1).parent  # noqa
        df = DLISFile(); lf = df.add_logical_file(); lf.add_origin('O', file_set_number=1); lf.add_channel('lower case name')
    print('name accepted inside the mode?!'); sys.exit(0)
except ValueError:
    pass
h.records.clear()
df = DLISFile(); lf = df.add_logical_file(); lf.add_origin('O', file_set_number=1)
lf.add_channel('lower case name', data=np.arange(3.0))
print('warnings for the name outside the mode:', [m for m in h.records if 'lower case name' in m or 'uppercase' in m])
sys.exit(1 if not h.records else 0)
