"""pyvc executor: symbolic execution of the real function text, one path per run, driven by a decision oracle.

Every nondeterministic point (an `if` on a symbolic condition, a call whose contract may raise, a shape split,
a loop cut) calls Oracle.choose(n); the driver re-runs the function once per decision prefix.  Each run is a single
path with mutable state, so the evaluator is a plain recursive interpreter."""
import ast
import itertools
import z3
from .values import *
from . import builtins_ as B


class Oracle:
    """decision trace: entries are ('c', i) = chosen alternative i of a real choice point, ('f', v) = forced decision
    (the other side was infeasible when first explored) - forced entries are replayed without probing the solver again"""
    def __init__(self, prefix=()):
        self.prefix = list(prefix)
        self.pos = 0
        self.new = []       # alternative prefixes discovered on this run

    def replaying(self):
        return self.pos < len(self.prefix)

    def replaying_forced_or_choice_pending(self):
        # merging is decided the same way on every replay (it consumes no trace entries), so it is always allowed
        return False

    def next_entry(self):
        e = self.prefix[self.pos]
        self.pos += 1
        return e

    def forced(self, v):
        self.prefix.append(('f', v))
        self.pos += 1

    def choose(self, n):
        if n <= 1:
            return 0
        if self.pos < len(self.prefix):
            e = self.prefix[self.pos]
            assert e[0] == 'c', 'oracle trace out of sync'
            c = e[1]
        else:
            c = 0
            base = self.prefix[:self.pos]
            for i in range(1, n):
                self.new.append(base + [('c', i)])
            self.prefix.append(('c', 0))
        self.pos += 1
        return c


class HObj:
    def __init__(self, cls, fields=None):
        self.cls, self.f = cls, dict(fields or {})

    def copy(self):
        h = HObj(self.cls, self.f)
        h.symbolic_model = getattr(self, 'symbolic_model', False)
        return h


class HList:
    def __init__(self, items):
        self.items = list(items)

    def copy(self):
        h = HList(self.items)
        h.is_set = getattr(self, 'is_set', False)
        return h


class HSeqList(HList):
    """a python list whose length is symbolic: contents are a z3 sequence of element codes (ints / object references)"""
    def __init__(self, seq, x):
        self.seq, self.x = seq, x

    @property
    def items(self):
        raise Unsupported('operation on a list of symbolic length')

    def copy(self):
        return HSeqList(self.seq, self.x)


class HDict:
    def __init__(self, d=None, default=None):
        self.d = dict(d or {})      # python-hashable key -> SV   (keys: str / ('cls',name) / ('obj',id) / int)
        self.default = default
        self.sym = []               # entries with symbolic keys, oldest first: (key SV, value SV); looked up latest first

    def copy(self):
        h = HDict(self.d, self.default)
        h.sym = list(self.sym)
        h.is_counter = getattr(self, 'is_counter', False)
        return h


class NeedConcreteMember(Unsupported):
    def __init__(self, v):
        super().__init__('symbolic enum member used as a key')
        self.v = v


class Obligation:
    __slots__ = ('key', 'kind', 'hyps', 'goal', 'line', 'aux', 'info')

    def __init__(self, key, kind, hyps, goal, line=0, aux=False, info=''):
        self.key, self.kind, self.hyps, self.goal, self.line, self.aux, self.info = key, kind, hyps, goal, line, aux, info


class Frame:
    def __init__(self, env, fn_key=None, cls=None, module=None):
        self.env, self.fn_key, self.cls, self.module = env, fn_key, cls, module


class State:
    def __init__(self, oracle):
        self.oracle = oracle
        self.pc = []
        self.assumed_ids = set()
        self.branches = set()
        self.heap = {}
        self.ids = itertools.count(1)
        self.fresh = itertools.count()
        self.obligations = []
        self.frames = []
        self.ghost = {}
        self.out = []           # yielded values (generator functions under contract)
        self.old_heap = None
        self.solver = None
        self.unsupported = None
        self.notes = []

    def alloc(self, h):
        i = next(self.ids)
        self.heap[i] = h
        return i

    def snapshot_heap(self):
        return {i: h.copy() for i, h in self.heap.items()}


def key_of(v):
    """python-hashable key for dict keys / membership among concrete values"""
    if v.k == 'const':
        return ('c', v.t)
    if v.k == 'none':
        return ('n',)
    if v.k in ('int', 'bool') and (z3.is_int_value(v.t) or z3.is_true(v.t) or z3.is_false(v.t)):
        return ('i', v.t.as_long() if v.k == 'int' else int(z3.is_true(v.t)))
    if v.k == 'cls':
        return ('cls', v.t)
    if v.k in ('obj', 'list', 'dict'):
        return ('h', v.t)
    if v.k == 'enum':
        return ('e', v.t)
    if v.k == 'tuple':
        return ('t', tuple(key_of(x) for x in v.t))
    if v.k == 'enumv':
        raise NeedConcreteMember(v)
    if v.k == 'func':
        return ('f', v.t.builtin) if getattr(v.t, 'builtin', None) else ('f', id(v.t))
    raise Unsupported(f'symbolic value {v} used as dictionary key / concrete member')


class Engine:
    def __init__(self, src, contracts, models=None, spec_funcs=None):
        self.src = src
        self.contracts = contracts
        self.models = models or {}          # object models: class -> {'fields':{}, 'inv':[]}
        self.spec_funcs = spec_funcs or {}  # name -> ast.FunctionDef (pure spec functions, inlined)
        self.st = None
        self.cur_key = None
        self.cur_contract = None
        self.uf = {}

    # ------------------------------------------------------------------ helpers
    def sym(self, name, sort):
        return z3.Const(f'{name}!{next(self.st.fresh)}', sort)

    def ufunc(self, name, *sorts):
        if name not in self.uf:
            self.uf[name] = z3.Function(name, *sorts)
        return self.uf[name]

    def assume(self, c):
        from .solve import ssimplify
        c = ssimplify(c) if z3.is_expr(c) else z3.BoolVal(bool(c))
        if z3.is_true(c):
            return
        self.st.pc.append(c)
        self.st.assumed_ids.add(c.get_id())      # provenance for the contradiction guard (an assumption, not a branch decision)
        if z3.is_false(c):
            raise PathEnd('assumption false')

    def feasible(self, extra):
        """quick feasibility probe of pc + extra on the sequence-free over-approximation (never builds sequence models);
        only a definite 'unsat' prunes, anything else counts as feasible"""
        from .solve import abstract_check
        import os
        if os.environ.get('PYVC_NO_PRUNE'):
            return True         # test knob: behave as if every feasibility probe had timed out (a very busy machine)
        return abstract_check(list(self.st.pc) + [extra], timeout_ms=300) != 'unsat'

    def branch(self, cond):
        """decide a symbolic condition on this path: returns python bool, extends the path condition"""
        c = z3.simplify(cond)
        if z3.is_true(c):
            return True
        if z3.is_false(c):
            return False
        v = self._branch(c)
        if getattr(self, 'in_body', False) and not getattr(self, 'in_spec', False):
            self.st.branches.add((getattr(self, 'cur_stmt_line', 0), v))      # for the branch-coverage vacuity guard
            self.st.__dict__.setdefault('branch_pc', {}).setdefault((getattr(self, 'cur_stmt_line', 0), v), len(self.st.pc))
        return v

    def _branch(self, c):
        orc = self.st.oracle
        if orc.replaying():
            e = orc.next_entry()
            v = e[1] if e[0] == 'f' else (e[1] == 0)
            self.st.pc.append(c if v else z3.Not(c))
            return v
        ft = self.feasible(c)
        ff = self.feasible(z3.Not(c)) if ft else True
        if ft and not ff:
            orc.forced(True)
            self.st.pc.append(c)
            return True
        if ff and not ft:
            orc.forced(False)
            self.st.pc.append(z3.Not(c))
            return False
        if orc.choose(2) == 0:
            self.st.pc.append(c)
            return True
        self.st.pc.append(z3.Not(c))
        return False

    def oblige(self, kind, goal, node=None, aux=False, info='', key=None):
        k = key or f'{self.cur_key}:{kind}'
        g = goal if z3.is_expr(goal) else z3.BoolVal(bool(goal))
        self.st.obligations.append(Obligation(k, kind, list(self.st.pc), g, getattr(node, 'lineno', 0), aux, info))

    @property
    def frame(self):
        return self.st.frames[-1]

    # ------------------------------------------------------------------ truthiness / coercions
    def truth(self, v):
        k = v.k
        if k == 'bool':
            return v.t
        if k == 'real':
            return v.t != 0
        if k == 'earr':
            raise Unsupported('truth value of an array')
        if k == 'int':
            return v.t != 0
        if k == 'none':
            return z3.BoolVal(False)
        if k in ('bytes', 'str', 'seq'):
            return z3.Length(v.t) != 0
        if k == 'const' and getattr(v.t, 'is_iterator', False):
            return z3.BoolVal(True)
        if k == 'const' and hasattr(v.t, 'items') and v.t.__class__.__name__ == 'Items':
            return z3.BoolVal(len(v.t.items) > 0)
        if k == 'const':
            return z3.BoolVal(bool(v.t))
        if k == 'tuple':
            return z3.BoolVal(len(v.t) > 0)
        if k == 'list':
            h = self.st.heap[v.t]
            if isinstance(h, HSeqList):
                return z3.Length(h.seq) != 0
            return z3.BoolVal(len(h.items) > 0)
        if k == 'dict':
            return z3.BoolVal(len(self.st.heap[v.t].d) > 0)
        if k == 'enumv':
            return v.t[1] != 0
        if k == 'obj':
            # python truth protocol: __bool__, else __len__ != 0, else True
            cls = self.st.heap[v.t].cls
            for nm in ('__bool__', '__len__'):
                fn, owner, ent = self.src.find_method(cls, nm)
                if fn is not None:
                    r = self.call_method(v, nm, [], {}, None)
                    return r.t if r.k == 'bool' else self.as_int(r) != 0
            return z3.BoolVal(True)
        if k in ('obj', 'cls', 'func', 'enum'):
            if k == 'enum':
                return z3.BoolVal(self.enum_value(v) != 0) if isinstance(self.enum_value(v), int) else z3.BoolVal(True)
            return z3.BoolVal(True)
        if k == 'opq':
            tv = getattr(self, 'opq_model_table', {}).get(v.x or 'any', {}).get('__truthy__')
            if tv is not None:
                return z3.BoolVal(tv)
            return self.ufunc('truthy', OPQ, BOOL)(v.t)
        if k == 'gen':
            return z3.BoolVal(True)
        raise Unsupported(f'truth of {v}')

    def as_int(self, v):
        if v.k == 'int':
            return v.t
        if v.k == 'bool':
            return z3.If(v.t, z3.IntVal(1), z3.IntVal(0))
        if v.k == 'enumv':
            return v.t[1]
        if v.k == 'enum':
            ev = self.enum_value(v)
            if isinstance(ev, int):
                return z3.IntVal(ev)
        if v.k == 'const' and isinstance(v.t, (int, bool)):
            return z3.IntVal(int(v.t))
        raise Unsupported(f'as_int {v}')

    def as_seq(self, v):
        if v.k in ('bytes', 'str', 'seq'):
            return v.t
        if v.k == 'const' and isinstance(v.t, (bytes, bytearray)):
            return seq_of_bytes(v.t)
        if v.k == 'const' and isinstance(v.t, str):
            return seq_of_str(v.t)
        raise Unsupported(f'as_seq {v}')

    def is_bytes_like(self, v):
        return v.k == 'bytes' or (v.k == 'const' and isinstance(v.t, (bytes, bytearray)))

    def is_str_like(self, v):
        return v.k == 'str' or (v.k == 'const' and isinstance(v.t, str))

    def is_num(self, v):
        return v.k in ('int', 'bool') or (v.k == 'const' and isinstance(v.t, (int, bool)))

    def enum_value(self, v):
        cls, member = v.t
        return self.enum_tables()[cls][member]['value']

    _enum_cache = None

    def enum_tables(self):
        """enum member tables, evaluated from the class bodies in the real source"""
        if Engine._enum_cache is not None and Engine._enum_cache[0] is self.src:
            return Engine._enum_cache[1]
        tabs = {}
        for cname, ci in self.src.classes.items():
            bases = ' '.join(ci.bases)
            if not any(b in bases for b in ('Enum', 'IntEnum', 'ValidatorEnum')):
                continue
            if cname == 'ValidatorEnum':
                continue
            tab = {}
            for n, e in ci.consts.items():
                if n.startswith('_'):
                    continue
                ent = {}
                if isinstance(e, ast.Tuple):
                    ent['value'] = ast.literal_eval(e.elts[0])
                    x = e.elts[1]
                    if isinstance(x, ast.Call) and ast.unparse(x.func) in ('Struct', 'struct.Struct'):
                        ent['fmt'] = x.args[0].value
                    else:
                        ent['fmt'] = None
                else:
                    try:
                        ent['value'] = ast.literal_eval(e)
                    except Exception:
                        continue
                tab[n] = ent
            tabs[cname] = tab
        Engine._enum_cache = (self.src, tabs)
        return tabs
