"""Source-level models of the few standard-library classes the repository (or a change to it) may subclass.  Indexed by pyvc.source like
repository code, so that methods inherited from them are executed from this text.  Semantics follow CPython's contextlib."""


class ContextDecorator:
    """contextlib.ContextDecorator: a context manager that can also be used as a decorator.  NOTE (as in CPython): the decorator form
    re-enters the SAME instance on every call (_recreate_cm returns self)."""

    def _recreate_cm(self):
        return self

    def __call__(self, func):
        def inner(*args, **kwds):
            with self._recreate_cm():
                return func(*args, **kwds)
        return inner


class AbstractContextManager:
    def __enter__(self):
        return self
