"""Contracts: L-ROW frame-data rows, data sources, chunking, windows (C03, C08, C10, C11, C19) over the numpy/h5py axioms X-NP*."""
from contracts.c_enc import ITEM_REF_MODEL, OBN_RAISES, OBN_BYTES

# ---------------------------------------------------------------------------------------------- X-NP: opaque library values
# chunk descriptor: which source rows a chunk holds (absolute index of its first row, number of rows), in which structured dtype
OPQ_MODELS = {
    'chunk': {'first_row': 'int', 'n_rows': 'int', 'sdtype': 'opq:sdtype', 'rows_of': 'opq:source', '__getitem__': 'method:opq:chunk', 'byteswap': 'method:opq:chunk',
              '__setitem__': 'method:opq:chunk',                 # store into a chunk made by np.zeros: the writer's own buffer
              '__isinstance__': {}},
    'source': {'__getitem__': 'method:opq:ndarray', 'dtype': 'opq:sdtype', '__isinstance__': {}},
    'sarray': {'dtype': 'opq:sdtype', 'shape0': 'int:nat', '__getitem__': 'method:opq:chunk',      # caller's structured array: slicing = view
               '__isinstance__': {'np.ndarray': True}},
    'ndarray': {'dtype': 'opq:dtype', '__setitem__': 'method!:opq:ndarray', 'byteswap': 'method:opq:ndarray', 'view': 'method:opq:ndarray', 'ndim': 'int:nat', 'size': 'int:nat', 'shape0': 'int:nat', 'shape_last': 'int:nat', '__getitem__': 'method:opq:ndarray',
                'min': 'method:opq:scalar', 'max': 'method:opq:scalar', '__isinstance__': {'np.ndarray': True}},
    'slot': {'byteswap': 'method:opq:slot', 'tobytes': 'method:bytes', '__isinstance__': {'np.ndarray': None}},
    'sdtype': {'names': 'opq:names', '__getitem__': 'method:opq:dtype', 'newbyteorder': 'method:opq:sdtype', '__isinstance__': {'np.dtype': True}},
    'dtype': {'name': 'str', 'kind': 'str', 'base': 'opq:dtype', 'itemsize': 'int:nat', 'isnative': 'bool', 'newbyteorder': 'method:opq:dtype', '__isinstance__': {'np.dtype': True}},
    'rowgen': {'__isinstance__': {}},
    'row': {'__isinstance__': {}},
}

SW_FIELDS = {'_data_source': 'opq:source', '_mapping': 'opq:mapping', '_dtype': 'opq:sdtype', '_from_idx': 'int', '_to_idx': 'int', '_n_rows': 'int'}
SW_INV = ['self._n_rows == self._to_idx - self._from_idx', 'self._n_rows >= 1', 'self._from_idx >= 0']

MODELS = {'SourceDataWrapper': {'fields': SW_FIELDS, 'inv': SW_INV}}

STOP = '(stop if stop is not None else self._n_rows)'
LOAD_RAISES = f'start < 0 or start > self._n_rows or {STOP} > self._n_rows or {STOP} < start'

CONTRACTS = {
 # summary used by the chunk generator (the base implementation is verified as SourceDataWrapper.load_chunk[base] below)
 'SourceDataWrapper.load_chunk': dict(
    props=[], axiom=True, params={'start': 'int', 'stop': 'int?'}, returns='opq:chunk',
    raises={'ValueError': LOAD_RAISES},
    ensures=['result.first_row == self._from_idx + start', f'result.n_rows == {STOP} - start', 'result.sdtype == self._dtype']),
 'SourceDataWrapper.make_chunked_generator': dict(
    props=['C10', 'C03', 'C11'], self_class='SourceDataWrapper', params={'chunk_rows': 'int?'}, returns='none', yields='opq:chunk',
    requires=['chunk_rows is None or chunk_rows >= 1'],
    ghost={'next_row': ('int', 'self._from_idx')},
    ghost_effects={'rows_left': 'self._n_rows'},      # for callers: a new generator holds exactly the window rows (= the postcondition below)
    # every chunk handed on starts exactly where the previous one ended, inside the window
    yield_requires=[('contiguous', 'yielded.first_row == next_row'), ('non-empty', 'yielded.n_rows >= 1')],
    on_yield={'next_row': 'yielded.first_row + yielded.n_rows'},
    loops=[dict(inv=['next_row == self._from_idx + __i * chunk_rows', 'n_full_chunks * chunk_rows + remainder_rows == self._n_rows',
                     '0 <= remainder_rows', 'remainder_rows < chunk_rows or (remainder_rows == 0)', 'chunk_rows >= 1', 'n_full_chunks >= 0'],
                havoc_ghost=['next_row'])],
    ensures=[('exactly-the-window-rows-in-order', 'next_row == self._from_idx + self._n_rows')]),
}

SPEC_UFS = {
    'dtype_value_error': (('opq', 'opq'), 'bool'),      # determine_dtypes raises ValueError (missing dataset / unsupported dtype)
    'too_many_dims': (('opq',), 'bool'),                # determine_dtypes raises RuntimeError (> 2 dimensions)
    'chunk_field_first': (('opq', 'str'), 'int'),       # absolute source row held in row 0 of a field of a chunk
    'chunk_field_src': (('opq', 'str'), 'opq'),         # the source dataset a field of a chunk was filled from
}
OPQ_MODELS['ndarray']['shape'] = 'opq:shape'
OPQ_MODELS['shape'] = {'__getitem__': 'method:int:nat', '__isinstance__': {}}
OPQ_MODELS['source']['__getitem__'] = 'method:opq:ndarray'

ROWS = lambda loc: f'data_source[{loc}].shape[0]'
M2 = 'dict{K0:str,K1:str}'
TOTAL = ROWS("mapping['K0']")
TO = f'(to_idx if to_idx is not None else {TOTAL})'
WINDOW_BAD = f'from_idx >= {TOTAL} or {TO} - from_idx < 1 or from_idx < 0 or {TO} > {TOTAL}'
ROWS_DIFFER = f'{ROWS("mapping[chr(75) + chr(49)]")} != {TOTAL}'.replace('chr(75) + chr(49)', "'K1'")

CONTRACTS.update({
 'SourceDataWrapper.determine_dtypes': dict(
    props=[], axiom=True, params={'data_object': 'opq:source', 'mapping': M2, 'known_dtypes': 'opq:known'}, returns='opq:sdtype',
    raises={'ValueError': 'dtype_value_error(data_object, known_dtypes)', 'RuntimeError': 'not dtype_value_error(data_object, known_dtypes) and too_many_dims(data_object)'},
    ensures=["not source_missing(data_object, mapping['K0'])", "not source_missing(data_object, mapping['K1'])"]),
 'SourceDataWrapper.__init__': dict(
    props=['C11', 'C12', 'C03'], self_class='SourceDataWrapper', self_fields={}, self_inv=[],
    params={'data_source': 'opq:source', 'mapping': M2, 'known_dtypes': 'opq:known', 'from_idx': 'int', 'to_idx': 'int?'}, returns='none',
    raises={'ValueError': f'dtype_value_error(data_source, known_dtypes) or (not too_many_dims(data_source) and ({WINDOW_BAD}))',
            'RuntimeError': 'not dtype_value_error(data_source, known_dtypes) and too_many_dims(data_source)'},
    ensures=[('window', f'self._from_idx == from_idx and self._to_idx == {TO} and self._n_rows == {TO} - from_idx'),
             ('window-inside-the-data', f'0 <= self._from_idx and self._to_idx <= {TOTAL} and self._n_rows >= 1'),
             ('all-datasets-have-the-same-number-of-rows@C12', f'{ROWS("mapping[chr(75)]")} == {TOTAL}'.replace('chr(75)', "'K1'"))]),
})

# np.zeros(n, dtype=d): a fresh chunk of n rows of structured dtype d (X-NP4)
OPQ_MODELS['sarray']['__getitem__'] = 'method:opq:chunk'
NW_FIELDS = dict(SW_FIELDS, _data_source='opq:sarray')

CONTRACTS.update({
 'SourceDataWrapper.load_chunk[base]': dict(
    target='SourceDataWrapper.load_chunk', self_class='SourceDataWrapper', props=['C11', 'C03', 'C19', 'C08', 'C10'],
    self_fields=dict(SW_FIELDS, _mapping=M2), params={'start': 'int', 'stop': 'int?'}, returns='opq:chunk',
    # type invariant of a constructed wrapper: every mapped dataset exists in the source (checked by determine_dtypes at construction)
    requires=["not source_missing(self._data_source, self._mapping['K0'])", "not source_missing(self._data_source, self._mapping['K1'])"],
    raises={'ValueError': LOAD_RAISES},
    ensures=[('rows-of-the-window', 'result.first_row == self._from_idx + start'), ('row-count', f'result.n_rows == {STOP} - start'),
             ('chunk-dtype', 'result.sdtype == self._dtype'),
             ('every-field-holds-the-window-rows-of-its-mapped-dataset',
              "chunk_field_first(result, 'K0') == self._from_idx + start and chunk_field_first(result, 'K1') == self._from_idx + start and "
              "chunk_field_src(result, 'K0') == self._data_source[self._mapping['K0']] and chunk_field_src(result, 'K1') == self._data_source[self._mapping['K1']]")]),
 'NumpyDataWrapper.load_chunk': dict(
    # C18 too ("a frame's records hold the slots of its own channels only"): the shortcut hands out rows of the caller's array as they
    # are, which is a frame row only when the array's dtype IS the frame's chunk dtype (round 7, C18-M: one array feeding two frames)
    props=['C11', 'C03', 'C08', 'C10', 'C18'], self_fields=dict(NW_FIELDS, _mapping=M2), self_inv=SW_INV + ['self._to_idx <= self._data_source.shape0'],
    params={'start': 'int', 'stop': 'int?'}, returns='opq:chunk',
    stubs={}, raises={'ValueError': f'self._dtype != self._data_source.dtype and ({LOAD_RAISES})'},
    requires=['0 <= start', f'start <= {STOP}', f'{STOP} <= self._n_rows'],
    ensures=[('rows-of-the-window', 'result.first_row == self._from_idx + start'), ('row-count', f'result.n_rows == {STOP} - start'),
             ('chunk-dtype', 'result.sdtype == self._dtype')]),
})

OPQ_MODELS['rowgen']['__truthy__'] = True
FRAME_REF = dict(ITEM_REF_MODEL, cls='FrameItem')
MFD_INV = ['self._chunk_rows is None or self._chunk_rows >= 1']
MFD_FIELDS = {'_data_source': {'cls': 'SourceDataWrapper', 'fields': SW_FIELDS, 'inv': SW_INV}, '_frame': FRAME_REF, '_origin_reference': 'int?',
              '_chunk_rows': 'int?', '_i': 'int', '_data_item_generator': 'oneof[none,opq:rowgen]'}

CONTRACTS.update({
 'MultiFrameData.__next__': dict(
    props=['C03', 'C18'], self_fields=MFD_FIELDS, params={}, returns={'cls': 'FrameData', 'fields': {}},
    ghost={'rows_left': ('int', 'fresh_int()')},
    # representation invariant of an iteration in progress: the row generator still holds exactly the rows not yet numbered
    requires=['self._i >= 0', 'rows_left == self._data_source._n_rows - self._i or self._data_item_generator is None'],
    raises={'RuntimeError': 'self._data_item_generator is None',
            'StopIteration': 'self._data_item_generator is not None and self._i >= self._data_source._n_rows'},
    ensures=[('counter-advances-by-one', 'self._i == old(self._i) + 1'),
             ('frame-number-is-the-row-ordinal-from-1', 'result._frame_number == old(self._i) + 1'),
             ('refers-to-its-own-frame', 'result._frame is self._frame'),
             ('never-more-records-than-rows', 'result._frame_number <= self._data_source._n_rows'),
             ('generator-invariant-kept', 'rows_left == self._data_source._n_rows - self._i')]),
 'MultiFrameData.__iter__': dict(
    props=['C03', 'C18', 'C10'], self_fields=MFD_FIELDS, self_inv=MFD_INV, params={}, returns={'cls': 'MultiFrameData', 'fields': {}},
    ghost={'rows_left': ('int', 'fresh_int()')},
    ensures=[('numbering-restarts', 'self._i == 0'), ('returns-itself', 'result is self'), ('has-generator', 'self._data_item_generator is not None'),
             ('generator-holds-all-rows', 'rows_left == self._data_source._n_rows - self._i')]),
 'MultiFrameData.__len__': dict(
    props=['C03'], self_fields=MFD_FIELDS, params={}, returns='int', ensures=[('one-record-per-row', 'result == self._data_source._n_rows')]),
})

for _k in (1, 2):
    _slots = ' + '.join(f'self._slots[{i}].byteswap().tobytes()' for i in range(_k))
    CONTRACTS[f'FrameData._make_body_bytes[{_k}-slots]'] = dict(
        target='FrameData._make_body_bytes', props=['C03', 'C08', 'C19', 'C14', 'C06'],
        self_fields={'_frame': FRAME_REF, '_frame_number': 'int', '_slots': f'list[opq:slot]*{_k}'},
        params={}, returns='bytes',
        raises=dict({k: v.replace('value.', 'self._frame.') for k, v in OBN_RAISES.items()},
                    **{'struct.error': '(' + OBN_RAISES['struct.error'].replace('value.', 'self._frame.') + ') or (self._frame._origin_reference is not None and not ('
                       + OBN_RAISES['struct.error'].replace('value.', 'self._frame.').split(' and ', 1)[1] + ') and len(self._frame.name) <= 255 and all_ascii(self._frame.name) and (self._frame_number < 0 or self._frame_number >= 1073741824))'}),
        ensures=[('reference-number-then-slots-in-order',
                  f"result == enc_obname(self._frame._origin_reference, self._frame._copy_number, self._frame.name) + enc_uvari(self._frame_number) + {_slots}")])

CONTRACTS['MultiFrameData.__init__'] = dict(
    props=['C03', 'C10', 'C18', 'C08'], self_fields={}, self_inv=[],
    params={'frame': {'cls': 'FrameItem', 'fields': {'_origin_reference': 'int?', 'channels': {'cls': 'Attribute', 'fields': {'_value': 'list[obj:NamedT]*2'}}}},
            'data': {'cls': 'SourceDataWrapper', 'fields': SW_FIELDS, 'inv': SW_INV}, 'chunk_size': 'int?'},
    returns='none', may_raise=['TypeError'],
    # C08 / C03: the slots of a row are the fields of the data in THEIR order; a frame is accepted only when its channel list names
    # exactly those fields in that order (a repeated or missing name would announce a layout the rows do not have)
    raises={'ValueError': '(chunk_size is not None and chunk_size < 1) or tuple(c.name for c in frame.channels.value) != data.dtype.names'},
    modifies=['self._frame', 'self._data_source', 'self._i', 'self._chunk_rows', 'self._origin_reference', 'self._data_item_generator'],
    stubs={'_check_type': dict(returns='none', raises=True)},
    ensures=[('chunk-size-positive-or-none', 'self._chunk_rows is None or self._chunk_rows >= 1'), ('chunk-size-kept', 'self._chunk_rows == chunk_size'),
             ('own-counter-from-zero', 'self._i == 0'), ('own-frame', 'self._frame is frame'), ('own-data', 'self._data_source is data'),
             ('origin-of-the-frame', 'self._origin_reference == frame._origin_reference')])
# C08 "a repeated ... name would announce a layout the rows do not have": stated once more for ONE concrete frame that lists the same
# name twice over data with a single field of that name, so that it is decided whatever form the comparison of the names takes
CONTRACTS['MultiFrameData.__init__[one-name-listed-twice]'] = dict(
    target='MultiFrameData.__init__', props=['C08', 'C03', 'C12'], self_fields={}, self_inv=[],
    params={'frame': {'cls': 'FrameItem', 'fields': {'_origin_reference': 'int?', 'channels': {'cls': 'Attribute', 'fields': {'_value': 'list[obj:NamedGR]*2'}}}},
            'data': {'cls': 'SourceDataWrapper', 'fields': dict(SW_FIELDS, _dtype={'cls': 'StructuredDTypeRecord', 'fields': {'names': 'tuple[const:"GR"]'}})},
            'chunk_size': 'none'},
    returns='none', may_raise=['TypeError'], raises={'ValueError': 'True'},
    inline_callees=['FrameItem.channel_name_mapping', 'FrameItem.known_channel_dtypes_mapping'],
    stubs={'_check_type': dict(returns='none', raises=True)})
MODELS['NamedGR'] = {'cls': 'ChannelItem', 'fields': {'name': 'const:"GR"', '_dataset_name': 'none', '_cast_dtype': 'none'}}
MODELS['MultiFrameData'] = {'fields': MFD_FIELDS, 'inv': []}
MODELS['NamedT'] = {'cls': 'ChannelItem', 'fields': {'name': 'str'}}
OPQ_MODELS['names'] = {'__isinstance__': {}}

# ---------------------------------------------------------------------------------------------- dtypes (C08, C03 byte order)
OPQ_MODELS['dtype'].update({'newbyteorder': 'method:opq:dtype', 'base': 'opq:dtype'})
OPQ_MODELS['ndarray'].update({'shape': 'opq:shape'})
SPEC_UFS.update({
    'field_dtype': (('opq', 'str'), 'opq'), 'field_width': (('opq', 'str'), 'int'), 'source_missing': (('opq', 'str'), 'bool'),
    'dtype_unsupported': (('opq',), 'bool'), 'np_dtype': (('opq',), 'opq'), 'dtype_newbyteorder': (('opq', 'str'), 'opq'),
})
CONTRACTS['ReprCodeConverter.validate_numpy_dtype'] = dict(
    props=[], axiom=True, params={'number_type': 'opq:dtype'}, returns='tuple[str,enumv:RepresentationCode]', self_is_class=True,
    raises={'ValueError': 'dtype_code(number_type.name) == -1'},
    ensures=['result[0] == number_type.name', 'result[1].value == dtype_code(number_type.name)'])


def _row0(k):
    return f"data_object[mapping['{k}']][0:1]"


def _wanted(k, known):
    src = f'{_row0(k)}.dtype'
    return f"known_dtypes['{k}']" if k in known else src


for _known in ((), ('K0',), ('K1',), ('K0', 'K1')):
    _kd = 'dict{' + ','.join(f'{k}:opq:dtype' for k in _known) + '}'
    _bad = ' or '.join(f"source_missing(data_object, mapping['{k}'])" for k in ('K0', 'K1'))
    CONTRACTS[f'SourceDataWrapper.determine_dtypes[2-channels,known={"+".join(_known) or "none"}]'] = dict(
        target='SourceDataWrapper.determine_dtypes', props=['C08', 'C03', 'C12', 'C14', 'C11', 'C06'],
        params={'data_object': 'opq:source', 'mapping': M2, 'known_dtypes': _kd}, returns='opq:sdtype',
        may_raise=['ValueError', 'RuntimeError'],
        ensures=[(f'field-{k}-has-the-known-dtype-else-the-source-dtype-in-native-byte-order',
                  f"field_dtype(result, '{k}') == dtype_newbyteorder(np_dtype({_wanted(k, _known)}), '=')") for k in ('K0', 'K1')] +
                [(f'field-{k}-width-is-the-row-width-of-a-2d-dataset',
                  f"field_width(result, '{k}') == ({_row0(k)}.shape[-1] if {_row0(k)}.ndim > 1 else 0)") for k in ('K0', 'K1')] +
                [('mapped-datasets-exist', "not source_missing(data_object, mapping['K0']) and not source_missing(data_object, mapping['K1'])"),
                 ('no-more-than-two-dimensions', f'{_row0("K0")}.ndim <= 2 and {_row0("K1")}.ndim <= 2'),
                 ('every-dtype-validated', f"dtype_code({_wanted('K0', _known)}.name) != -1 and dtype_code({_wanted('K1', _known)}.name) != -1")])

# ---------------------------------------------------------------------------------------------- LogicalFile._make_multi_frame_data
CONTRACTS['DictDataWrapper.__init__'] = dict(
    props=[], axiom=True, params={'data_dict': 'dict{}', 'mapping': 'opq:mapping', 'known_dtypes': 'opq:known', 'from_idx': 'int', 'to_idx': 'int?'},
    returns='none', modifies=['self._data_source', 'self._from_idx', 'self._to_idx', 'self._dtype', 'self._mapping', 'self._n_rows'],
    self_fields={'_data_source': 'dict{}', '_from_idx': 'int', '_to_idx': 'int', '_dtype': 'opq:sdtype', '_mapping': 'opq:mapping', '_n_rows': 'int'},
    raises={'AnyException': 'wrapper_rejects(data_dict, mapping, known_dtypes, from_idx)'},
    ensures=['self._data_source is data_dict', 'self._from_idx == from_idx'])
SPEC_UFS['wrapper_rejects'] = (('opq', 'opq', 'opq', 'int'), 'bool')
OPQ_MODELS['arr'] = {'__isinstance__': {'np.ndarray': True}}
OPQ_MODELS['mapping'] = {'__isinstance__': {}}
OPQ_MODELS['known'] = {'__isinstance__': {}}
FR = {'cls': 'FrameItem', 'fields': {'_origin_reference': 'int?'}}
for _own, _passed in (('dict{}', 'dict{A:opq:arr,B:opq:arr}'), ('dict{A:opq:arr}', 'dict{A:opq:arr,B:opq:arr}'), ('dict{A:opq:arr}', 'none'),
                      ('dict{A:opq:arr,C:opq:arr}', 'dict{A:opq:arr}')):
    _nm = f'own={_own[4:].replace(":opq:arr", "")},passed={_passed[4:].replace(":opq:arr", "") if _passed != "none" else "None"}'
    # C14 (from the property text: "no state ... (merged data) leaks from one write into another"): the arrays passed to a write are
    # used for that write only - the specification's own dict is the same object with the same entries afterwards (frame: modifies=[]).
    # C19: the wrapper reads a dict that is not the caller's; the caller's dict keeps its keys.
    _W = 'result._data_source._data_source'
    _own_keys = [k.split(':')[0] for k in _own[5:-1].split(',') if k]
    _ens = [('the-wrapper-reads-a-dict-of-its-own-not-the-callers', f'{_W} is not data'),
            ('window-forwarded', 'result._data_source._from_idx == from_idx')]
    _keys = []
    if _passed != 'none':
        _keys = [k.split(':')[0] for k in _passed[5:-1].split(',')]
        _ens += [(f'data-passed-to-this-write-wins-for-{k}', f"{_W}['{k}'] is data['{k}']") for k in _keys]
        _ens += [('callers-dict-keeps-its-keys', f'len(data) == {len(_keys)}')]
    _ens += [(f'data-given-at-channel-creation-is-used-for-{k}', f"{_W}['{k}'] is self._data_dict['{k}']") for k in _own_keys if k not in _keys]
    _ens += [('nothing-else-is-read', f'len({_W}) == {len(set(_keys) | set(_own_keys))}')]
    CONTRACTS[f'LogicalFile._make_multi_frame_data[{_nm}]'] = dict(
        target='LogicalFile._make_multi_frame_data', props=['C03', 'C11', 'C14', 'C19', 'C18'],
        self_fields={'_data_dict': _own}, params={'fr': FR, 'data': _passed, 'from_idx': 'int', 'to_idx': 'int?', 'kwargs': {}},
        returns={'cls': 'MultiFrameData', 'fields': {}},
        stubs={'channel_name_mapping': dict(returns='opq:mapping', pure=True), 'known_channel_dtypes_mapping': dict(returns='opq:known', pure=True),
               '_check_data': dict(returns='none', raises=True), 'setup_from_data': dict(returns='none', raises=True),
               '_check_type': dict(returns='none', raises=True)},
        may_raise=['AnyException', 'ValueError', 'TypeError', 'RuntimeError'],
        modifies=[], exc_modifies=[],
        ensures=_ens)

for _t in ('dtype', 'sdtype', 'ndarray', 'sarray', 'source', 'chunk', 'slot', 'row', 'arr'):
    OPQ_MODELS[_t]['__truthy__'] = True      # objects of the library, never None

CONTRACTS['HDF5DataWrapper.__init__'] = dict(
    props=['C19', 'C11'], self_fields={}, self_inv=[],
    params={'data_file_name': 'opq:path', 'mapping': M2, 'known_dtypes': 'opq:known', 'from_idx': 'int', 'to_idx': 'int?'}, returns='none',
    may_raise=['ValueError', 'RuntimeError'],
    call_requires={'SourceDataWrapper.__init__': [
        ('dataset-paths-get-exactly-one-leading-slash',
         "mapping['K0'] == (old_mapping_K0 if old_mapping_K0.startswith('/') else '/' + old_mapping_K0) and mapping['K1'] == (old_mapping_K1 if old_mapping_K1.startswith('/') else '/' + old_mapping_K1)"),
        ('window-forwarded', 'from_idx == from_idx_in and (to_idx == to_idx_in if to_idx_in is not None else to_idx is None)')]},
    setup=["old_mapping_K0 = mapping['K0']", "old_mapping_K1 = mapping['K1']", 'from_idx_in = from_idx', 'to_idx_in = to_idx'],
    ensures=[])
OPQ_MODELS['path'] = {'__isinstance__': {}, '__truthy__': True}

# ---------------------------------------------------------------------------------------------- window access, dispatch (C11, C13)
CONTRACTS['SourceDataWrapper.__getitem__'] = dict(
    props=['C11', 'C13', 'C08'], self_class='SourceDataWrapper', self_fields=dict(SW_FIELDS, _mapping=M2), params={'item': 'oneof[const:"K0",const:"K1",const:"nope"]'},
    returns='opq:ndarray',
    raises={'ValueError': "item == 'nope' or source_missing(self._data_source, self._mapping[item])"},
    ensures=[('rows-of-the-window-of-the-mapped-dataset', 'result == self._data_source[self._mapping[item]][self._from_idx:self._to_idx]')])
CONTRACTS['FrameItem.known_channel_dtypes_mapping'] = dict(
    props=['C08', 'C11'], kind='get',
    self_fields={'channels': {'cls': 'Attribute', 'fields': {'_value': {'list': [{'cls': 'ChannelItem', 'fields': {'name': 'const:"A"', '_cast_dtype': 'oneof[none,opq:dtype]'}},
                                                                              {'cls': 'ChannelItem', 'fields': {'name': 'const:"B"', '_cast_dtype': 'oneof[none,opq:dtype]'}}]}}}},
    params={}, returns='dict{}',
    ensures=[('only-channels-with-a-cast-dtype-and-each-with-its-own',
              "len(result) == (0 if self.channels._value[0]._cast_dtype is None else 1) + (0 if self.channels._value[1]._cast_dtype is None else 1) and "
              "implies(self.channels._value[1]._cast_dtype is not None, result['B'] is self.channels._value[1]._cast_dtype) and "
              "implies(self.channels._value[0]._cast_dtype is not None, result['A'] is self.channels._value[0]._cast_dtype)")])
CONTRACTS['FrameItem.setup_from_data'] = dict(
    props=['C08', 'C13', 'C12'],
    self_fields={'name': 'str', 'channels': {'cls': 'Attribute', 'fields': {'_value': 'oneof[none,list[obj:SetupChT]*0,list[obj:SetupChT]*2]'}}},
    params={'data': {'cls': 'SourceDataWrapper', 'fields': {}}}, returns='none',
    ghost={'setup_calls': ('int', '0'), 'frame_params_done': ('bool', 'False')},
    stubs={'set_dimension_and_repr_code_from_data': dict(returns='none', raises=True, ghost_set={'setup_calls': 'setup_calls + 1'}),
           '_setup_frame_params_from_data': dict(returns='none', raises=True, ghost_set={'frame_params_done': 'True'})},
    raises={'RuntimeError': 'self.channels._value is None or len(self.channels._value) == 0'}, may_raise=['StubException'],
    ensures=[('every-listed-channel-is-set-up-from-the-data-then-the-frame', 'setup_calls == 2 and frame_params_done')])
MODELS['SetupChT'] = {'cls': 'ChannelItem', 'fields': {'name': 'str'}}

for _nm, _src, _cls in (('dict', 'dict{A:opq:arr}', 'DictDataWrapper'), ('structured-array', 'opq:sarray', 'NumpyDataWrapper')):
    CONTRACTS[f'SourceDataWrapper.make_wrapper[{_nm}]'] = dict(
        target='SourceDataWrapper.make_wrapper', props=['C11'], self_is_class=True, self_class='SourceDataWrapper',
        params={'source': _src, 'mapping': 'opq:mapping', 'kwargs': {'from_idx': 'int', 'to_idx': 'int?', 'known_dtypes': 'opq:known'}},
        returns={'cls': _cls, 'fields': {}},
        stubs={'__init__': dict(returns='none', raises=True, capture=True)}, may_raise=['StubException'],
        ensures=[('wrapper-kind-follows-the-kind-of-the-source', f'isinstance(result, {_cls})'),
                 ('source-mapping-window-and-dtypes-forwarded-unchanged',
                  "stub_call_init['from_idx'] == kwargs['from_idx'] and stub_call_init['mapping'] is mapping and stub_call_init['known_dtypes'] is kwargs['known_dtypes'] and "
                  "(stub_call_init['to_idx'] == kwargs['to_idx'] if kwargs['to_idx'] is not None else stub_call_init['to_idx'] is None)")])
