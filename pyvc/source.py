"""Source index: re-reads the repository's real source text on every run (ast), builds the class table, MRO,
module-level function/constant tables.  Nothing is imported from the repository."""
import ast
import os

DEFAULT_SRC = '/repo/src/dliswriter'


def src_root():
    return os.environ.get('PYVC_SRC', DEFAULT_SRC)


class ClassInfo:
    def __init__(self, name, node, path, module):
        self.name, self.node, self.path, self.module = name, node, path, module
        self.bases = [ast.unparse(b) for b in node.bases]
        self.metaclass = None
        for kw in node.keywords:
            if kw.arg == 'metaclass':
                self.metaclass = ast.unparse(kw.value)
        self.methods = {}      # name -> {'get': fn, 'set': fn, 'plain': fn, 'static': bool, 'classmethod': bool}
        self.consts = {}       # class-level assignments name -> ast expr
        self.nested = {}       # nested classes
        for n in node.body:
            if isinstance(n, ast.FunctionDef):
                decs = [ast.unparse(d) for d in n.decorator_list]
                ent = self.methods.setdefault(n.name, {})
                if any(d.endswith('.setter') for d in decs):
                    ent['set'] = n
                elif any(d in ('property', 'cached_property', 'functools.cached_property') for d in decs):
                    ent['get'] = n
                    ent['cached'] = any('cached_property' in d for d in decs)
                elif 'overload' in decs:
                    continue
                else:
                    ent['plain'] = n
                    ent['static'] = 'staticmethod' in decs
                    ent['classmethod'] = 'classmethod' in decs
                    ent['decorators'] = decs
            elif isinstance(n, ast.Assign):
                for t in n.targets:
                    if isinstance(t, ast.Name):
                        self.consts[t.id] = n.value
            elif isinstance(n, ast.AnnAssign) and isinstance(n.target, ast.Name) and n.value is not None:
                self.consts[n.target.id] = n.value
            elif isinstance(n, ast.ClassDef):
                self.nested[n.name] = n


class Source:
    def __init__(self, root=None):
        self.root = root or src_root()
        self.trees, self.classes, self.funcs, self.modconsts, self.text = {}, {}, {}, {}, {}
        self.late_class_consts = {}   # e.g. ChannelItem.parent_eflr_class = ChannelSet (module-level attribute assignment)
        self.aliases = {}             # per module: local name -> imported name (import x as y)
        here = os.path.dirname(os.path.dirname(os.path.abspath(__file__)))
        files = []
        for dp, dn, fn in sorted(os.walk(self.root)):
            if 'tests' in dp.split(os.sep):
                continue
            for f in sorted(fn):
                if f.endswith('.py'):
                    files.append((os.path.join(dp, f), os.path.relpath(os.path.join(dp, f), self.root)))
        # after the repository: source-level models of standard-library base classes, and the scenario (harness) functions of /verif.
        # A name the repository defines itself always wins.
        self.extra_modules = set()
        for sub in ('pyvc/shims', 'scenarios'):
            d = os.path.join(here, sub)
            if os.path.isdir(d):
                for f in sorted(os.listdir(d)):
                    if f.endswith('.py') and f != '__init__.py':
                        files.append((os.path.join(d, f), '<verif>/' + sub + '/' + f))
        for p, rel in files:
            if True:
                extra = rel.startswith('<verif>/')
                if extra:
                    self.extra_modules.add(rel)
                txt = open(p).read()
                t = ast.parse(txt)
                self.trees[rel] = t
                self.text[rel] = txt
                al = self.aliases.setdefault(rel, {})
                for n in t.body:
                    if isinstance(n, ast.ClassDef):
                        if extra and n.name in self.classes:
                            continue
                        ci = ClassInfo(n.name, n, rel, rel)
                        self.classes[n.name] = ci
                        for nn, nd in ci.nested.items():
                            self.classes[n.name + '.' + nn] = ClassInfo(nn, nd, rel, rel)
                            self.classes.setdefault(nn, self.classes[n.name + '.' + nn])
                    elif isinstance(n, ast.FunctionDef):
                        if extra and n.name in self.funcs:
                            continue
                        self.funcs[n.name] = (n, rel)
                    elif isinstance(n, ast.Assign):
                        for tg in n.targets:
                            if isinstance(tg, ast.Name):
                                self.modconsts[(rel, tg.id)] = n.value
                                self.modconsts.setdefault(('*', tg.id), n.value)
                            elif isinstance(tg, ast.Attribute) and isinstance(tg.value, ast.Name):
                                self.late_class_consts[(tg.value.id, tg.attr)] = n.value
                    elif isinstance(n, ast.AnnAssign) and isinstance(n.target, ast.Name) and n.value is not None:
                        self.modconsts[(rel, n.target.id)] = n.value
                        self.modconsts.setdefault(('*', n.target.id), n.value)
                    elif isinstance(n, ast.ImportFrom):
                        for a in n.names:
                            if a.asname:
                                al[a.asname] = a.name
        self._mro = {}

    # ---- classes
    def resolve_class_name(self, name, module=None):
        """Map a (possibly aliased / dotted) class expression text to a class table key, or None."""
        if name in self.classes:
            return name
        if module and name in self.aliases.get(module, {}):
            return self.resolve_class_name(self.aliases[module][name])
        for al in self.aliases.values():
            if name in al and al[name] in self.classes:
                return al[name]
        last = name.split('.')[-1]
        if last in self.classes:
            return last
        return None

    def mro(self, cls):
        if cls in self._mro:
            return self._mro[cls]
        # compute C3 via real dummy classes
        built = {}

        def build(c):
            if c in built:
                return built[c]
            ci = self.classes.get(c)
            bases = []
            if ci:
                for b in ci.bases:
                    rb = self.resolve_class_name(b, ci.module)
                    if rb and rb != c:
                        bases.append(build(rb))
            k = type(c, tuple(bases) or (object,), {})
            built[c] = k
            return k
        k = build(cls)
        out = [c.__name__ for c in k.__mro__ if c is not object]
        self._mro[cls] = out
        return out

    def is_subclass(self, cls, base):
        return base in self.mro(cls) or base == 'object'

    def find_method(self, cls, name, kind='plain', after=None):
        """Look up method `name` along the MRO of cls.  `after`: start after this class (super())."""
        mro = self.mro(cls)
        if after is not None:
            mro = mro[mro.index(after) + 1:] if after in mro else []
        for c in mro:
            ci = self.classes.get(c)
            if ci and name in ci.methods and kind in ci.methods[name]:
                return ci.methods[name][kind], c, ci.methods[name]
        return None, None, None

    def find_member(self, cls, name, after=None):
        """Return ('method', entry, owner) | ('const', ast, owner) | None along the MRO."""
        mro = self.mro(cls)
        if after is not None:
            mro = mro[mro.index(after) + 1:] if after in mro else []
        for c in mro:
            ci = self.classes.get(c)
            if not ci:
                continue
            if name in ci.methods:
                return ('method', ci.methods[name], c)
            if (c, name) in self.late_class_consts:
                return ('const', self.late_class_consts[(c, name)], c)
            if name in ci.consts:
                return ('const', ci.consts[name], c)
        return None

    def func_span(self, fn, path):
        return {'file': os.path.join(self.root, path), 'line_start': fn.lineno, 'line_end': fn.end_lineno}


def c_name(x):
    return x
