#!/usr/bin/env python3
"""tools/r7_summary.py [dir] : one line per confirmed seeded change from the JSON files written by tools/seeded.py"""
import glob, json, os, sys
d = sys.argv[1] if len(sys.argv) > 1 else '/var/tmp/r7'
for f in sorted(glob.glob(d + '/*.json')):
    if not os.path.getsize(f):
        continue
    try:
        j = json.load(open(f))
    except Exception as e:
        print(os.path.basename(f), 'unreadable', e); continue
    print(os.path.basename(f)[:-5], 'applies', j.get('patch_applies'), 'demo', j.get('demo_base_exit'), j.get('demo_mut_exit'), {p: c['exit'] for p, c in j.get('checks', {}).items()})
    for p, c in j.get('checks', {}).items():
        for l in c['lines']:
            if l.startswith(('VIOLATION', 'UNDECIDED', 'CHECKER')):
                print('     ', l[:300])
