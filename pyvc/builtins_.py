"""Concrete helpers and tables for builtins."""
import operator


class ModuleRef:
    def __init__(self, name):
        self.name = name

    def __repr__(self):
        return f'<module {self.name}>'

    def __eq__(self, o):
        return isinstance(o, ModuleRef) and o.name == self.name

    def __hash__(self):
        return hash(('mod', self.name))


class Items:
    """a concrete-length iterable of SV produced by dict.items()/values()/zip/enumerate"""
    def __init__(self, items):
        self.items = list(items)


BUILTIN_NAMES = {
    'len', 'min', 'max', 'sum', 'map', 'filter', 'any', 'all', 'zip', 'enumerate', 'range', 'divmod', 'int', 'str', 'bool',
    'round', 'tuple', 'list', 'dict', 'isinstance', 'issubclass', 'getattr', 'setattr', 'hasattr', 'callable', 'type', 'repr',
    'bytearray', 'bytes', 'float', 'slice', 'Counter', 'defaultdict', 'Number', 'abs', 'prod', 'sorted', 'reversed', 'next', 'iter', 'set', 'super', 'open', 'print', 'format', 'id', 'object',
    # specification vocabulary
    'old', 'implies', 'iff', 'fresh_bytes', 'fresh_refs', 'fresh_int', 'in_seq', 'ascii_bytes', 'all_ascii', 'ieee32', 'ieee64', 'f32_overflow', 'progressbar', 'timeit', 'hc_name_ok', 'enum_member',
}
MODULE_NAMES = {'os', 'h5py', 'np', 'np.zeros', 'np.dtype', 'datetime', 'numpy', 're', 'logging', 'struct', 'functools', 'h5py', 'datetime_mod', 'enums', 'eflr_types', 'timezone'}

_OPS = {'Add': operator.add, 'Sub': operator.sub, 'Mult': operator.mul, 'Mod': operator.mod, 'FloorDiv': operator.floordiv,
        'Div': operator.truediv, 'Pow': operator.pow, 'BitAnd': operator.and_, 'BitOr': operator.or_, 'BitXor': operator.xor,
        'LShift': operator.lshift, 'RShift': operator.rshift}
_CMP = {'Lt': operator.lt, 'LtE': operator.le, 'Gt': operator.gt, 'GtE': operator.ge, 'Eq': operator.eq, 'NotEq': operator.ne}


def py_binop(op, a, b):
    return _OPS[op](a, b)


def py_compare(op, a, b):
    return _CMP[op](a, b)


# struct formats: (size, signed)
STRUCT_INT = {'>B': (1, False), '>H': (2, False), '>I': (4, False), '>b': (1, True), '>h': (2, True), '>i': (4, True)}

SPEC_BUILTINS = {'ascii_bytes', 'all_ascii', 'ieee32', 'ieee64', 'f32_overflow', 'hc_name_ok', 'enum_member'}
