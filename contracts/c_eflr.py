"""Contracts: object / template / set components of explicitly formatted records (C04), generated per item class from the
attribute schema that is extracted mechanically from the real source on every run."""
import ast
from pyvc.source import Source
from contracts.c_attr import ATTR_FIELDS
from contracts.c_enc import ITEM_REF_MODEL, OBN_RAISES

SPEC_UFS = {
    'attr_component': (('ref',), 'bytes'),              # bytes of one attribute component (= Attribute.get_as_bytes(), c_attr.py)
    'template_component': (('ref',), 'bytes'),          # bytes of one template component (= get_as_bytes(for_template=True))
    'item_body': (('ref',), 'bytes'),                   # bytes of one object component with its attributes (= make_item_body_bytes())
    'concat_item_bodies': (('seq',), 'concat:item_body'),
    'set_component': (('ref',), 'bytes'), 'template_bytes': (('ref',), 'bytes'),
}

_src = Source()


def schema(cls):
    """ordered python names of the Attribute-valued fields assigned in cls.__init__ (the class's attribute schema)"""
    fn, owner, _ = _src.find_method(cls, '__init__')
    out = []
    for st in fn.body:
        if isinstance(st, ast.Assign) and len(st.targets) == 1 and isinstance(st.targets[0], ast.Attribute) \
                and isinstance(st.targets[0].value, ast.Name) and st.targets[0].value.id == 'self' and isinstance(st.value, ast.Call):
            cname = _src.resolve_class_name(ast.unparse(st.value.func), _src.classes[owner].module)
            if cname and _src.is_subclass(cname, 'Attribute'):
                out.append(st.targets[0].attr)
    return out


ITEM_CLASSES = sorted(c for c in _src.classes if c != 'EFLRItem' and '.' not in c and _src.is_subclass(c, 'EFLRItem'))
SCHEMAS = {c: schema(c) for c in ITEM_CLASSES}

ATTR_OBJ = {'cls': 'Attribute', 'fields': {'_value': 'opq:optval'}}      # a value that may be None (symbolically)

CONTRACTS = {
 # summary of c_attr.py for callers: one component, a function of the attribute object
 'Attribute.get_as_bytes': dict(
    props=[], axiom=True, params={'for_template': 'bool'}, returns='bytes',
    may_raise_modular=True,
    ensures=['result == (template_component(self) if for_template else attr_component(self))']),
}

for _c in ITEM_CLASSES:
    if _c == 'FileHeaderItem':
        continue
    _sch = SCHEMAS[_c]
    if not _sch:
        continue
    _expected = ' + '.join(f"(b'\\x00' if self.{a}._value is None else attr_component(self.{a}))" for a in _sch)
    CONTRACTS[f'EFLRItem._make_attrs_bytes[{_c}]'] = dict(
        target='EFLRItem._make_attrs_bytes', self_class=_c, props=['C04'],
        self_fields=dict({'name': 'str'}, **{a: ATTR_OBJ for a in _sch}),
        params={}, returns='bytes', may_raise=['StubException'], merge_ifs=True,
        ensures=[('one-component-per-schema-attribute-in-schema-order-absent-marked', f'result == {_expected}')])

# ---------------------------------------------------------------------------------------------- template component
CONTRACTS['Attribute.get_as_bytes[template]'] = dict(
    target='Attribute.get_as_bytes', props=['C04'],
    self_fields={'_label': 'str'}, params={'for_template': 'const:True'}, returns='bytes',
    raises={'ValueError': 'len(self._label) > 255', 'UnicodeEncodeError': '0 < len(self._label) and len(self._label) <= 255 and not all_ascii(self._label)'},
    ensures=[('label-only-template-component', "result == (bytes([48]) + enc_ident(self._label) if len(self._label) > 0 else bytes([32]))")])

# ---------------------------------------------------------------------------------------------- object component
CONTRACTS['EFLRItem._make_attrs_bytes'] = dict(
    props=[], axiom=True, params={}, returns='bytes', ensures=['result == item_attrs(self)'])
SPEC_UFS['item_attrs'] = (('ref',), 'bytes')
_ITEM = dict(ITEM_REF_MODEL['fields'])
CONTRACTS['EFLRItem.make_item_body_bytes[ZoneItem]'] = dict(
    target='EFLRItem.make_item_body_bytes', self_class='ZoneItem', props=['C04'],
    self_fields=_ITEM, params={}, returns='bytes',
    stubs={'_run_checks_and_set_defaults': dict(returns='none', raises=True)},
    raises={k: v.replace('value.', 'self.') for k, v in OBN_RAISES.items()},
    ensures=[('object-component-then-attributes',
              "result == bytes([112]) + enc_obname(self._origin_reference, self._copy_number, self.name) + item_attrs(self)")])
CONTRACTS['EFLRItem.make_item_body_bytes'] = dict(
    props=[], axiom=True, params={}, returns='bytes', ensures=['result == item_body(self)'])

# ---------------------------------------------------------------------------------------------- set component, template, body
SET_FIELDS = {'set_name': 'str?', '_set_type_struct': 'bytes', '_eflr_item_list': 'seq[ref]'}
_NAMED = 'self.set_name is not None and len(self.set_name) > 0'
CONTRACTS['EFLRSet.__init__[ZoneSet]'] = dict(
    target='EFLRSet.__init__', self_class='ZoneSet', props=['C04'],
    self_fields={}, params={'set_name': 'str?'}, returns='none',
    ensures=[('type-bytes', "self._set_type_struct == enc_ident('ZONE')"), ('name-kept', 'self.set_name == set_name'),
             ('no-items', 'len(self._eflr_item_list) == 0')])
CONTRACTS['EFLRSet._make_set_component_bytes'] = dict(
    self_class='ZoneSet', props=['C04'],
    self_fields=SET_FIELDS, params={}, returns='bytes',
    requires=["self._set_type_struct == enc_ident('ZONE')"],
    raises={'ValueError': f'{_NAMED} and len(self.set_name) > 255',
            'UnicodeEncodeError': f'{_NAMED} and len(self.set_name) <= 255 and not all_ascii(self.set_name)'},
    ensures=[('set-component', f"result == ((bytes([248]) + enc_ident('ZONE') + enc_ident(self.set_name)) if ({_NAMED}) else (bytes([240]) + enc_ident('ZONE')))")])
CONTRACTS['EFLRSet._make_template_bytes'] = dict(
    props=[], axiom=True, params={}, returns='bytes', ensures=['result == template_bytes(self)'])
CONTRACTS['EFLRSet._make_body_bytes[ZoneSet]'] = dict(
    target='EFLRSet._make_body_bytes', self_class='ZoneSet', props=['C04', 'C09', 'C14'],
    self_fields=SET_FIELDS, params={}, returns='bytes',
    requires=["self._set_type_struct == enc_ident('ZONE')"],
    ref_methods={'make_item_body_bytes': 'EFLRItem.make_item_body_bytes'},
    may_raise=['ValueError', 'UnicodeEncodeError', 'StubException'],
    loops=[dict(inv=['bts == at_entry(bts) + concat_item_bodies(__done)'])],
    ensures=[('empty-set-has-no-record', "implies(len(self._eflr_item_list) == 0, result == b'')"),
             ('set-template-objects', "implies(len(self._eflr_item_list) > 0, result == ((bytes([248]) + enc_ident('ZONE') + enc_ident(self.set_name)) "
              f"if ({_NAMED}) else (bytes([240]) + enc_ident('ZONE'))) + template_bytes(self) + concat_item_bodies(self._eflr_item_list))")])

# C09 "each (type, name) at most once and never empty": a set that holds no object (e.g. one left behind by a rejected add_* call) has
# no record at all - stated for the concretely empty list as well, so that it is decided whatever shape the item loop takes
CONTRACTS['EFLRSet._make_body_bytes[ZoneSet,no-items]'] = dict(
    target='EFLRSet._make_body_bytes', self_class='ZoneSet', props=['C09', 'C04', 'C12'],
    self_fields=dict(SET_FIELDS, _eflr_item_list='list[int]*0'), params={}, returns='bytes',
    requires=["self._set_type_struct == enc_ident('ZONE')"],
    ensures=[('empty-set-has-no-record', "result == b''")])

# template of a set = one label-only component per schema attribute of its first object, in schema order
for _n in (1, 2):
    CONTRACTS[f'EFLRSet._make_template_bytes[ZoneSet,{_n}-items]'] = dict(
        target='EFLRSet._make_template_bytes', self_class='ZoneSet', props=['C04'],
        self_fields={'_eflr_item_list': 'list[obj:ZoneItemT]*%d' % _n}, params={}, returns='bytes',
        ensures=[('template-from-first-object-in-schema-order',
                  'result == ' + ' + '.join(f'template_component(self._eflr_item_list[0].{a})' for a in SCHEMAS['ZoneItem']))])
CONTRACTS['EFLRSet._make_template_bytes[ZoneSet,0-items]'] = dict(
    target='EFLRSet._make_template_bytes', self_class='ZoneSet', props=['C04'],
    self_fields={'_eflr_item_list': 'list[int]*0'}, params={}, returns='bytes', ensures=[('empty', "result == b''")])
MODELS = {'ZoneItemT': {'cls': 'ZoneItem', 'fields': dict({'name': 'str'}, **{a: {'cls': 'Attribute', 'fields': {'_label': 'str'}} for a in SCHEMAS['ZoneItem']})}}

# ---------------------------------------------------------------------------------------------- file header (hand-written components)
CONTRACTS['FileHeaderSet._make_template_bytes'] = dict(
    props=['C04', 'C09', 'C14'], self_fields={}, params={}, returns='bytes',
    ensures=[('two-label-and-code-components', "result == bytes([52]) + enc_ident('SEQUENCE-NUMBER') + bytes([20]) + bytes([52]) + enc_ident('ID') + bytes([20])")])
_SEQ10 = 'len(str(self.sequence_number)) > 10'
CONTRACTS['FileHeaderItem._make_attrs_bytes'] = dict(
    props=['C04', 'C09', 'C12', 'C14'], self_fields={'sequence_number': 'int', 'header_id': 'str'}, params={}, returns='bytes',
    raises={'ValueError': f'{_SEQ10} or len(self.header_id) > 65',
            'UnicodeEncodeError': f'not ({_SEQ10}) and len(self.header_id) <= 65 and not all_ascii(self.header_id)'},
    ensures=[('len', 'len(result) == 79'),
             ('sequence-number-right-justified-10-id-left-justified-65',
              'result == bytes([33, 10]) + ascii_bytes(rjust(str(self.sequence_number), 10)) + bytes([33, 65]) + ascii_bytes(ljust(self.header_id, 65))')])


# ---------------------------------------------------------------------------------------------- schema obligations (finite, decided by evaluation)
def _labels(cls):
    """(python name, label) per schema attribute; the label is computed by evaluating the REAL label expression of Attribute.__init__"""
    fn, owner, _ = _src.find_method(cls, '__init__')
    afn, _, _ = _src.find_method('Attribute', '__init__')
    expr = None
    for st in ast.walk(afn):
        if isinstance(st, ast.Assign) and isinstance(st.targets[0], ast.Attribute) and st.targets[0].attr == '_label':
            expr = st.value
    out = []
    for st in fn.body:
        if isinstance(st, ast.Assign) and len(st.targets) == 1 and isinstance(st.targets[0], ast.Attribute) and isinstance(st.value, ast.Call):
            cname = _src.resolve_class_name(ast.unparse(st.value.func), _src.classes[owner].module)
            if not (cname and _src.is_subclass(cname, 'Attribute')):
                continue
            arg = st.value.args[0] if st.value.args else next((k.value for k in st.value.keywords if k.arg == 'label'), None)
            if cname in ('ReprCodeAttribute',):
                arg = ast.Constant('representation_code')
            if not isinstance(arg, ast.Constant):
                out.append((st.targets[0].attr, None))
                continue
            out.append((st.targets[0].attr, eval(compile(ast.Expression(expr), '<label>', 'eval'), {'label': arg.value})))
    return out


def extra_c04(tier, seed, src):
    res = {'violations': [], 'errors': [], 'undecided': [], 'schema_classes': 0, 'schema_labels': 0}
    import json, os
    for c in ITEM_CLASSES:
        if c == 'FileHeaderItem':
            continue
        labs = _labels(c)
        res['schema_classes'] += 1
        res['schema_labels'] += len(labs)
        bad = [n for n, l in labs if not l]
        dup = sorted({l for n, l in labs if l and [x for _, x in labs].count(l) > 1})
        if bad or dup:
            path = os.path.join(os.path.dirname(os.path.dirname(__file__)), 'replays', f'C04_schema_{c}.json')
            os.makedirs(os.path.dirname(path), exist_ok=True)
            json.dump({'property': 'C04', 'obligation': f'schema[{c}]:labels-unique-nonempty', 'class': c, 'labels': labs, 'empty_or_unevaluable': bad,
                       'duplicates': dup, 'how': 'labels are computed by evaluating the label expression of Attribute.__init__ on the literal passed in the item class'}, open(path, 'w'), indent=1)
            res['violations'].append({'key': f'schema[{c}]:labels-unique-nonempty', 'replay': path, 'confirmed': True})
    return res


def schema_table_obligations(src, prop):
    """schema[<set type>]: the EFLR schema the library builds (spec/dump_schema.py, evaluated natively on the tree under test - the schema
    is a constant of the code) equals the RP66 V1 object-type table spec/rp66_schema.py: record type, template labels in order, count
    class, fixed representation code, referenced object type.  One obligation per set type; a difference is reported with its text."""
    import importlib.util, json, os, subprocess, time
    here = os.path.dirname(os.path.dirname(os.path.abspath(__file__)))
    t0 = time.time()
    env = dict(os.environ)
    env['PYTHONPATH'] = os.path.dirname(src.root) + os.pathsep + env.get('PYTHONPATH', '')
    p = subprocess.run(['/venv/bin/python', os.path.join(here, 'spec', 'dump_schema.py')], capture_output=True, text=True, timeout=300, env=env)
    if p.returncode != 0:
        return {'errors': [f'schema dump failed: {p.stderr[-400:]}'], 'obligations': []}
    dumped = json.loads(p.stdout.strip().splitlines()[-1])
    sp = importlib.util.spec_from_file_location('rp66_schema', os.path.join(here, 'spec', 'rp66_schema.py'))
    mod = importlib.util.module_from_spec(sp)
    sp.loader.exec_module(mod)
    diffs = mod.compare(dumped)
    ediffs = mod.compare_enums(dumped.get('__enums__', {}))
    dumped = {k: v for k, v in dumped.items() if not k.startswith('__')}
    obs = [{'key': 'schema[enumerations]:representation-codes-and-record-types-as-in-RP66', 'function': 'schema table (evaluated)',
            'status': 'refuted' if ediffs else 'discharged', 'solver': 'exact evaluation', 'seconds': 0.0, 'model': ediffs or None}]
    for st in sorted(set(mod.SCHEMA) | set(dumped)):
        mine = [d for d in diffs if d.startswith(st + ':') or d.startswith(st + '.')]
        obs.append({'key': f'schema[{st}]:equals-the-RP66-object-type-table', 'function': 'schema table (evaluated)', 'status': 'refuted' if mine else 'discharged',
                    'solver': 'exact evaluation', 'seconds': round((time.time() - t0) / max(1, len(dumped)), 4), 'model': mine or None})
    return {'errors': [], 'obligations': obs}


def extra_c04_with_table(tier, seed, src):
    res = extra_c04(tier, seed, src)
    t = schema_table_obligations(src, 'C04')
    res['errors'] = list(res.get('errors', [])) + t['errors']
    res['obligations'] = list(res.get('obligations', [])) + t['obligations']
    return res


def extra_c05(tier, seed, src):
    t = schema_table_obligations(src, 'C05')
    return {'violations': [], 'errors': t['errors'], 'undecided': [], 'obligations': t['obligations']}


EXTRAS = {'C04': extra_c04_with_table, 'C05': extra_c05}
