#!/usr/bin/env python3
"""tools/import_round.py <Cxx> <worktree prefix n|r> <round> <variant for A> <variant for B> : copy a sub-agent result
(<worktree>/_out with A.diff, demo_A.py, B.diff, demo_B.py, meta.json) into seeded/Cxx-<variant>."""
import json, os, shutil, sys
prop, prefix, rnd, va, vb = sys.argv[1:6]
out = f'/tmp/wt/{prefix}{prop}/_out'
meta = json.load(open(f'{out}/meta.json'))
for src_v, dst_v in (('A', va), ('B', vb)):
    d = f'/verif/seeded/{prop}-{dst_v}'
    os.makedirs(d, exist_ok=True)
    shutil.copy(f'{out}/{src_v}.diff', f'{d}/patch.diff')
    shutil.copy(f'{out}/demo_{src_v}.py', f'{d}/demo.py')
    m = meta.get(src_v, {})
    json.dump({'property': prop, 'variant': dst_v, 'round': int(rnd), 'summary': m.get('summary'), 'needs_to_manifest': m.get('needs_to_manifest'),
               'why_tests_pass': m.get('why_tests_pass'), 'subagent_ran': m.get('ran'),
               'already_failing_noted_by_subagent': meta.get('already_failing')}, open(f'{d}/meta.json', 'w'), indent=1)
    print('imported', d)
