"""Axiomatised externals: files (X-OS), context managers, decorators, numpy/h5py facts (X-NP*), datetime (X-DT)."""
import ast
import z3
from .values import *
from .engine import HObj, HList, HDict, key_of, Frame
from . import builtins_ as B


class ExternMixin:
    # ---------------------------------------------------------------- X-OS: open / write / close on the ghost disk
    def disk_exists(self):
        """X-OS: whether the target path names a file.  Unknown at entry (a non-existing file has no content); true after any open for writing."""
        g = self.st.ghost
        if 'disk_exists' not in g:
            e = self.sym('disk_exists', BOOL)
            self.assume(z3.Implies(z3.Not(e), z3.Length(self.as_seq(g['disk'])) == 0))
            g['disk_exists'] = VB(e)
        return g['disk_exists']

    def open_file(self, args, node):
        mode = args[1] if len(args) > 1 else VC('r')
        if mode.k != 'const':
            raise Unsupported('open() with symbolic mode')
        if 'disk' not in self.st.ghost:
            raise Unsupported('open(): contract declares no ghost disk')
        m = ''.join(sorted(mode.t.replace('b', '')))
        if m in ('w', '+w'):
            self.st.ghost['disk'] = SV('bytes', z3.Empty(SEQ))      # truncation
            pos = VI(0)
        elif m in ('a', '+a'):
            pos = None                                              # every write goes to the end
        elif m == '+r':
            if not self.branch(self.disk_exists().t):
                raise PyRaise('FileNotFoundError', 'open r+')
            pos = VI(0)                                             # content kept, position at the start
        else:
            raise Unsupported(f'open mode {mode.t}')
        self.st.ghost['disk_exists'] = VB(True)
        self.st.ghost['n_opens'] = VI(self.as_int(self.st.ghost.get('n_opens', VI(0))) + 1)
        return SV('obj', self.st.alloc(HObj('__file__', {'mode': mode, 'name': args[0], 'pos': pos if pos is not None else NONE})))

    def close_file(self, h, node):
        pass

    def file_write(self, f, args):
        disk, b = self.as_seq(self.st.ghost['disk']), self.as_seq(args[0])
        pos = self.st.heap[f.t].f.get('pos', NONE) if f is not None and f.k == 'obj' else NONE
        if pos.k == 'none':
            self.st.ghost['disk'] = SV('bytes', z3.Concat(disk, b))
            return VI(z3.Length(b))
        p = self.as_int(pos)
        if z3.is_int_value(z3.simplify(p)) and z3.simplify(p).as_long() == 0 and z3.is_app(disk) and disk.decl().kind() == z3.Z3_OP_SEQ_EMPTY:
            self.st.ghost['disk'] = SV('bytes', b)                  # the common case (fresh 'wb' file) without extract terms
        else:
            if self.branch(z3.Or(p < 0, p > z3.Length(disk))):
                raise Unsupported('write beyond the end of the file (zero fill) / negative position')
            tail_from = p + z3.Length(b)
            tail = z3.If(tail_from < z3.Length(disk), z3.Extract(disk, tail_from, z3.Length(disk) - tail_from), z3.Empty(SEQ))
            self.st.ghost['disk'] = SV('bytes', z3.Concat(z3.Extract(disk, 0, p), b, tail))
        self.st.heap[f.t].f['pos'] = VI(p + z3.Length(b))
        return VI(z3.Length(b))

    def file_seek(self, f, args):
        if len(args) != 1:
            raise Unsupported('seek with whence')
        h = self.st.heap[f.t]
        if h.f.get('pos', NONE).k == 'none':
            return VI(self.as_int(args[0]))                          # append mode: writes ignore the position
        h.f['pos'] = VI(self.as_int(args[0]))
        return h.f['pos']

    def getattr_value(self, base, name, node=None, default=None):
        if base.k == 'obj' and self.st.heap[base.t].cls == '__file__' and name == 'write':
            return SV('func', FuncVal(builtin='filewrite', bound=base, name='write'))
        if base.k == 'obj' and self.st.heap[base.t].cls == '__file__' and name == 'seek':
            return SV('func', FuncVal(builtin='fileseek', bound=base, name='seek'))
        return super().getattr_value(base, name, node, default)

    def bi_next(self, args, kw, node):
        a = args[0]
        if a.k == 'opq' and a.x == 'rowgen':
            # the next row of the chunk stream; the ghost `rows_left` counts what the generator can still yield
            # (the chunk generator yields exactly n_rows rows: SourceDataWrapper.make_chunked_generator's contract)
            left = self.st.ghost.get('rows_left')
            if left is None:
                raise Unsupported('next() on the row generator without the ghost rows_left')
            if self.branch(self.as_int(left) <= 0):
                raise PyRaise('StopIteration')
            self.st.ghost['rows_left'] = VI(self.as_int(left) - 1)
            return SV('opq', self.sym('row', OPQ), 'row')
        if a.k == 'gen':
            return SV('opq', self.sym('row', OPQ), 'row')
        return super().bi_next(args, kw, node)

    def bi_filewrite(self, args, kw, node):
        return self.file_write(None, args)

    def call_builtin(self, f, args, kw, node=None):
        if f.builtin == 'filewrite':
            return self.file_write(f.bound, args)
        if f.builtin == 'fileseek':
            return self.file_seek(f.bound, args)
        return super().call_builtin(f, args, kw, node)

    # specification vocabulary
    def bi_fresh_bytes(self, args, kw, node):
        return SV('bytes', self.sym('fresh', SEQ))

    def bi_ieee32(self, args, kw, node):
        return SV('bytes', self.ufunc('ieee32', OPQ, SEQ)(self.as_opq(args[0])))

    def bi_ieee64(self, args, kw, node):
        return SV('bytes', self.ufunc('ieee64', OPQ, SEQ)(self.as_opq(args[0])))

    def bi_f32_overflow(self, args, kw, node):
        return VB(self.ufunc('f32_overflow', OPQ, BOOL)(self.as_opq(args[0])))

    def bi_in_seq(self, args, kw, node):
        return VB(z3.Contains(self.list_as_seq(args[1]), z3.Unit(self.elem_code(args[0]))))

    def bi_fresh_int(self, args, kw, node):
        return VI(self.sym('fresh', INT))

    def bi_fresh_refs(self, args, kw, node):
        return SV('seq', self.sym('refs', SEQ), 'ref')

    def bi_all_ascii(self, args, kw, node):
        return VB(self.all_ascii(self.as_seq(args[0])))

    def all_ascii(self, s):
        """structural decomposition of the predicate 'every code point < 128' (axioms of concat/unit/ite/repeat/str_of_int)"""
        s = z3.simplify(s)
        d = s.decl().kind() if z3.is_app(s) else None
        if d == z3.Z3_OP_SEQ_CONCAT:
            return z3.And(*[self.all_ascii(c) for c in s.children()])
        if d == z3.Z3_OP_SEQ_UNIT:
            c = s.arg(0)
            return z3.And(c >= 0, c < 128)
        if d == z3.Z3_OP_SEQ_EMPTY:
            return z3.BoolVal(True)
        if d == z3.Z3_OP_ITE:
            return z3.If(s.arg(0), self.all_ascii(s.arg(1)), self.all_ascii(s.arg(2)))
        if z3.is_app(s) and s.decl().name() == 'repeat':
            return z3.Or(s.arg(1) <= 0, z3.And(s.arg(0) >= 0, s.arg(0) < 128))
        if z3.is_app(s) and s.decl().name() == 'str_of_int':
            return z3.BoolVal(True)
        return self.ufunc('all_ascii', SEQ, BOOL)(s)

    # ---------------------------------------------------------------- X-DT: datetime
    def dt_astimezone(self, recv, args, kw, node):
        """X-DT: d.astimezone(utc) denotes the same instant in UTC; fields are in calendar ranges"""
        t = self.ufunc('dt_utc', OPQ, OPQ)(recv.t)
        r = SV('opq', t, 'datetime')
        rng = {'year': (1, 9999), 'month': (1, 12), 'day': (1, 31), 'hour': (0, 23), 'minute': (0, 59), 'second': (0, 59),
               'microsecond': (0, 999999)}
        for f, (lo, hi) in rng.items():
            x = self.ufunc(f'datetime_{f}', OPQ, INT)(t)
            self.assume(z3.And(x >= lo, x <= hi))
        return r

    def dt_replace(self, recv, args, kw, node):
        """X-DT: d.replace(...) is ANOTHER datetime (fields relabelled, not the same instant): an uninterpreted function of d and the
        replaced parts, with calendar-range fields - in particular not dt_utc(d)"""
        t = self.ufunc('dt_replace_' + '_'.join(sorted(kw)), OPQ, OPQ)(recv.t)
        rng = {'year': (1, 9999), 'month': (1, 12), 'day': (1, 31), 'hour': (0, 23), 'minute': (0, 59), 'second': (0, 59), 'microsecond': (0, 999999)}
        for f, (lo, hi) in rng.items():
            x = self.ufunc(f'datetime_{f}', OPQ, INT)(t)
            self.assume(z3.And(x >= lo, x <= hi))
        return SV('opq', t, 'datetime')

    def dt_timetuple(self, recv, utc):
        """X-DT: d.utctimetuple() holds the UTC calendar fields of d when d is AWARE; for a naive d it holds d's own fields unconverted (python
        takes a naive datetime as UTC there, while astimezone takes it as local time).  d.timetuple(): d's own fields, never converted."""
        t = self.ufunc('dt_utctimetuple' if utc else 'dt_timetuple', OPQ, OPQ)(recv.t)
        own = {'tm_year': 'year', 'tm_mon': 'month', 'tm_mday': 'day', 'tm_hour': 'hour', 'tm_min': 'minute', 'tm_sec': 'second'}
        rng = {'tm_year': (1, 9999), 'tm_mon': (1, 12), 'tm_mday': (1, 31), 'tm_hour': (0, 23), 'tm_min': (0, 59), 'tm_sec': (0, 59)}
        aware = z3.Not(self.ufunc('is_none', OPQ, BOOL)(self.ufunc('datetime_tzinfo', OPQ, OPQ)(recv.t)))
        u = self.ufunc('dt_utc', OPQ, OPQ)(recv.t)
        for f, (lo, hi) in rng.items():
            x = self.ufunc(f'timetuple_{f}', OPQ, INT)(t)
            self.assume(z3.And(x >= lo, x <= hi))
            mine = self.ufunc(f'datetime_{own[f]}', OPQ, INT)(recv.t)
            if utc:
                self.assume(z3.If(aware, x == self.ufunc(f'datetime_{own[f]}', OPQ, INT)(u), x == mine))
            else:
                self.assume(x == mine)
        return SV('opq', t, 'timetuple')

    opq_methods = {'datetime.utctimetuple': lambda self, recv, args, kw, node: self.dt_timetuple(recv, True),
                   'datetime.timetuple': lambda self, recv, args, kw, node: self.dt_timetuple(recv, False),
                   'datetime.astimezone': lambda self, recv, args, kw, node: self.dt_astimezone(recv, args, kw, node),
                   'datetime.replace': lambda self, recv, args, kw, node: self.dt_replace(recv, args, kw, node)}

    def bi_round(self, args, kw, node):
        """X-ROUND: round(us / 1000) for an integer us: exact closed form (round-half-even on the exactly representable ties);
        the closed form is validated exhaustively against CPython for 0 <= us < 10**6 by the axiom validator"""
        a = args[0]
        if a.k == 'opq' and z3.is_app(a.t) and a.t.decl().name() == 'fDiv':
            x, y = a.t.arg(0), a.t.arg(1)
            if z3.is_app(x) and x.decl().name() == 'of_int' and z3.is_app(y) and y.decl().name() == 'of_int' \
                    and z3.is_int_value(z3.simplify(y.arg(0))) and z3.simplify(y.arg(0)).as_long() == 1000:
                us = x.arg(0)
                if not self.in_spec:
                    self.oblige('axiom-domain[round]', z3.And(us >= 0, us < 1000000), node, aux=True)
                q = us / 1000
                r = us % 1000
                return VI(z3.If(r < 500, q, z3.If(r > 500, q + 1, z3.If(q % 2 == 0, q, q + 1))))
        return super().bi_round(args, kw, node)

    # ---------------------------------------------------------------- X-RE: regular expressions
    SPEC_LANGS = {'hc_name_ok': ('[A-Z0-9_-]+', 'fullmatch')}     # languages named by the specification (property C17's own text)
    _lang_cache = {}

    def lang_symbol(self, pattern, method):
        """uninterpreted predicate for the language of (pattern, method); two pairs get the SAME predicate iff z3 proves their
        languages equal (decided on z3's string theory, independent of the function VCs)"""
        from . import regex
        key = (pattern, method)
        if key in ExternMixin._lang_cache:
            return self.ufunc(ExternMixin._lang_cache[key], SEQ, BOOL)
        name = None
        for sname, (sp, sm) in self.SPEC_LANGS.items():
            try:
                eq = regex.equivalent(pattern, method, sp, sm)
            except ValueError as e:
                raise Unsupported(f'regular expression {pattern!r}: {e}')
            if eq is None:
                raise Unsupported(f'regular expression equivalence undecided for {pattern!r}')
            if eq:
                name = 'lang_' + sname
        if name is None:
            import hashlib
            name = 'lang_' + hashlib.sha1(repr(key).encode()).hexdigest()[:10]
        ExternMixin._lang_cache[key] = name
        return self.ufunc(name, SEQ, BOOL)

    def bi_enum_member(self, args, kw, node):
        return VB(self.ufunc('enum_member_' + args[0].t, SEQ, BOOL)(self.as_seq(args[1])))

    def bi_hc_name_ok(self, args, kw, node):
        return VB(self.ufunc('lang_hc_name_ok', SEQ, BOOL)(self.as_seq(args[0])))

    def ext_re_compile(self, args, kw, node):
        if args[0].k != 'const':
            raise Unsupported('re.compile of a symbolic pattern')
        return SV('const', ('regex', args[0].t))

    def ext_np_zeros(self, args, kw, node):
        """X-NP4: np.zeros(n, dtype=d) is a fresh array of n rows of dtype d (owned by the writer)"""
        r = SV('opq', self.sym('zeros', OPQ), 'chunk')
        self.assume(self.ufunc('chunk_n_rows', OPQ, INT)(r.t) == self.as_int(args[0]))
        if 'dtype' in kw:
            self.assume(self.ufunc('chunk_sdtype', OPQ, OPQ)(r.t) == self.as_opq(kw['dtype']))
        self.st.ghost[('fresh_chunk', str(r.t))] = True
        return r

    def ext_np_dtype(self, args, kw, node):
        """X-NP3: np.dtype(x) of a dtype-like is that dtype; np.dtype([(name, dt[, width]), ...]) is a structured dtype with
        exactly these fields, in this order, with these element dtypes and sub-array widths"""
        a = args[0]
        if a.k == 'list':
            r = SV('opq', self.sym('sdtype', OPQ), 'sdtype')
            fd = self.ufunc('field_dtype', OPQ, SEQ, OPQ)
            fw = self.ufunc('field_width', OPQ, SEQ, INT)
            names = []
            for it in self.iter_concrete(a):
                parts = list(it.t)
                nm = self.as_seq(parts[0])
                names.append(parts[0])
                self.assume(fd(r.t, nm) == self.as_opq(parts[1]))
                self.assume(fw(r.t, nm) == (self.as_int(parts[2]) if len(parts) > 2 else z3.IntVal(0)))
            self.assume(self.ufunc('sdtype_names', OPQ, OPQ)(r.t) == self.as_opq(SV('tuple', tuple(names))))
            return r
        return SV('opq', self.ufunc('np_dtype', OPQ, OPQ)(self.as_opq(a)), 'dtype')

    def ext_rng(self, args, kw, node):
        """X-RNG: np.random.randint(lo, hi): an unconstrained integer in [lo, hi); every call is counted in the ghost rng_calls"""
        self.st.ghost['rng_calls'] = VI(self.as_int(self.st.ghost.get('rng_calls', VI(0))) + 1)
        r = self.sym('random', INT)
        if len(args) >= 2 and self.is_num(args[0]) and self.is_num(args[1]):
            self.assume(z3.And(r >= self.as_int(args[0]), r < self.as_int(args[1])))
        return VI(r)

    def ext_now(self, args, kw, node):
        self.st.ghost['clock_reads'] = VI(self.as_int(self.st.ghost.get('clock_reads', VI(0))) + 1)
        return SV('opq', self.sym('now', OPQ), 'datetime')

    def ext_h5_file(self, args, kw, node):
        """X-H5: h5py.File(path, 'r') opens the file read-only; any other mode could alter the caller's file (C19 obligation)"""
        mode = args[1] if len(args) > 1 else kw.get('mode', VC('r'))
        ok = mode.k == 'const' and mode.t == 'r'
        self.oblige('source-file-opened-read-only[h5py.File]', z3.BoolVal(ok), node, info=f'mode {mode.t if mode.k == "const" else "symbolic"}')
        return SV('opq', self.sym('h5file', OPQ), 'source')

    def ext_iinfo(self, args, kw, node):
        return SV('const', ('iinfo', args[0].t.name if args[0].k == 'const' else None))

    def ext_path_exists(self, args, kw, node):
        if 'disk' not in self.st.ghost:
            raise Unsupported('os.path.exists: contract declares no ghost disk')
        return self.disk_exists()

    externals = {'re.compile': lambda self, args, kw, node: self.ext_re_compile(args, kw, node),
                 'os.path.exists': lambda self, args, kw, node: self.ext_path_exists(args, kw, node),
                 'os.path.isfile': lambda self, args, kw, node: self.ext_path_exists(args, kw, node),
                 'np.random.randint': lambda self, args, kw, node: self.ext_rng(args, kw, node),
                 'datetime.now': lambda self, args, kw, node: self.ext_now(args, kw, node),
                 'np.iinfo': lambda self, args, kw, node: self.ext_iinfo(args, kw, node),
                 'np.isfinite': lambda self, args, kw, node: SV('opq', self.ufunc('np_isfinite', OPQ, OPQ)(self.as_opq(args[0])), 'ndarray'),
                 'np.isnan': lambda self, args, kw, node: SV('opq', self.ufunc('np_isnan', OPQ, OPQ)(self.as_opq(args[0])), 'ndarray'),
                 # np.can_cast(a, b, casting=...): some relation between two dtypes, weaker than equality (uninterpreted per casting rule)
                 'np.can_cast': lambda self, args, kw, node: VB(self.ufunc('np_can_cast_' + (str(kw['casting'].t) if 'casting' in kw and kw['casting'].k == 'const' else 'safe'),
                                                                           OPQ, OPQ, BOOL)(self.as_opq(args[0]), self.as_opq(args[1]))),
                 'h5py.File': lambda self, args, kw, node: self.ext_h5_file(args, kw, node),
                 'np.issubdtype': lambda self, args, kw, node: VB(self.ufunc('issubdtype_' + (args[1].t.name.replace('.', '_') if args[1].k == 'const' else 'x'), OPQ, BOOL)(self.as_opq(args[0]))),
                 'np.array': lambda self, args, kw, node: self.ext_np_array(args, kw, node),
                 # X-NP10: np.asarray(a) of an array IS that array (no copy) - whatever is done to the result in place is done to `a`
                 'np.asarray': lambda self, args, kw, node: args[0] if (args[0].k == 'opq' and not kw) else self.ext_np_array(args, kw, node),
                 'np.zeros': lambda self, args, kw, node: self.ext_np_zeros(args, kw, node),
                 # X-NPSTEP (pyvc/npstats.py): consecutive differences of an index array and their statistics
                 'np.diff': lambda self, args, kw, node: self.np_diff(args, kw, node),
                 'np.unique': lambda self, args, kw, node: self.np_unique(args, kw, node),
                 'np.median': lambda self, args, kw, node: self.np_central('median', args, kw, node),
                 'np.mean': lambda self, args, kw, node: self.np_central('mean', args, kw, node),
                 'np.dtype': lambda self, args, kw, node: self.ext_np_dtype(args, kw, node)}

    def ext_np_array(self, args, kw, node):
        """X-NP9: np.array(v) of a nested sequence raises ValueError exactly when v is ragged (numpy >= 1.24) - unless an object dtype is
        asked for, which accepts anything (the ragged parts become python objects)"""
        v = self.as_opq(args[0])
        as_object = 'dtype' in kw and kw['dtype'].k in ('cls', 'func', 'const') and 'object' in str(getattr(kw['dtype'].t, 'builtin', kw['dtype'].t))
        if not as_object and not self.in_spec:
            if self.branch(self.ufunc('np_ragged', OPQ, BOOL)(v)):
                raise PyRaise('ValueError')
        return SV('opq', self.ufunc('np_array_of' + ('_object' if as_object else ''), OPQ, OPQ)(v), 'ndarray')

    def opq_call(self, recv, name, args, kw, node):
        tag = recv.x
        if tag == 'float' and name == 'is_integer' and z3.is_app(recv.t) and recv.t.decl().name() == 'of_int':
            return VB(True)        # X-FLOAT: float(n) of an integer n (exactly representable or not) is integral
        if tag == 'shape' and name == '__getitem__' and args and args[0].k == 'slice':
            # a part of a shape tuple: some tuple of sizes the model does not enumerate (iterating it gives the representative shapes of
            # unknown state: nothing, or one unknown element)
            return SV('opq', self.ufunc('shape_slice', OPQ, OPQ, OPQ)(recv.t, self.opq_arg(args[0])), 'unknown')
        if name == 'byteswap' and (args or kw):
            # X-NP7: byteswap() copies; byteswap(True) / byteswap(inplace=True) swaps the caller's buffer in place
            flag = args[0] if args else kw.get('inplace', VB(False))
            if not z3.is_false(z3.simplify(self.truth(flag))):
                self.on_mutating_call(recv, name, args, kw, node)
        if tag == 'source' and name == '__getitem__' and not self.in_spec:
            # X-H5 / dict: looking up a dataset that is not there raises KeyError
            if self.branch(self.ufunc('source_missing', OPQ, SEQ, BOOL)(recv.t, self.as_seq(args[0]))):
                raise PyRaise('KeyError')
        r = super().opq_call(recv, name, args, kw, node)
        if tag == 'sarray' and name == '__getitem__' and args and args[0].k == 'slice':
            # X-NP1: A[a:b] of a structured array (0 <= a <= b <= len) is a view of rows a..b-1 in A's dtype
            lo, hi = args[0].t
            n = self.ufunc('sarray_shape0', OPQ, INT)(recv.t)
            a = self.as_int(lo) if lo.k != 'none' else z3.IntVal(0)
            b = self.as_int(hi) if hi.k != 'none' else n
            inb = z3.And(0 <= a, a <= b, b <= n)
            self.assume(z3.Implies(inb, z3.And(self.ufunc('chunk_first_row', OPQ, INT)(r.t) == a,
                                               self.ufunc('chunk_n_rows', OPQ, INT)(r.t) == b - a)))
            self.assume(self.ufunc('chunk_sdtype', OPQ, OPQ)(r.t) == self.ufunc('sarray_dtype', OPQ, OPQ)(recv.t))
            if not self.in_spec:
                self.oblige('slice-in-bounds[X-NP1]', inb, node, aux=True, info='array slice must be inside the array for the row-exact view axiom')
        if tag == 'chunk' and name == '__getitem__' and args and args[0].k == 'slice':
            # X-NP1 again: a slice C[a:b] of a row view C (0 <= a <= b <= rows of C) is the view of its rows a..b-1, same dtype
            lo, hi = args[0].t
            n = self.ufunc('chunk_n_rows', OPQ, INT)(recv.t)
            a = self.as_int(lo) if lo.k != 'none' else z3.IntVal(0)
            b = self.as_int(hi) if hi.k != 'none' else n
            inb = z3.And(0 <= a, a <= b, b <= n)
            self.assume(z3.Implies(inb, z3.And(self.ufunc('chunk_first_row', OPQ, INT)(r.t) == self.ufunc('chunk_first_row', OPQ, INT)(recv.t) + a,
                                               self.ufunc('chunk_n_rows', OPQ, INT)(r.t) == b - a)))
            self.assume(self.ufunc('chunk_sdtype', OPQ, OPQ)(r.t) == self.ufunc('chunk_sdtype', OPQ, OPQ)(recv.t))
            if not self.in_spec:
                self.oblige('slice-in-bounds[X-NP1]', inb, node, aux=True, info='slice of a row view must be inside the view for the row-exact axiom')
        if tag in ('ndarray',) and name == '__getitem__' and args and args[0].k == 'slice':
            # X-NP1: D[a:b] of a dataset holds rows a.. of D (numpy clamps; exactness of the row count is the in-bounds obligation of the caller)
            lo, hi = args[0].t
            a = self.as_int(lo) if lo.k != 'none' else z3.IntVal(0)
            self.assume(self.ufunc('nd_first', OPQ, INT)(r.t) == self.ufunc('nd_first', OPQ, INT)(recv.t) + a)
            self.assume(self.ufunc('nd_base', OPQ, OPQ)(r.t) == self.ufunc('nd_base', OPQ, OPQ)(recv.t))
        if tag == 'source' and name == '__getitem__':
            self.assume(self.ufunc('nd_first', OPQ, INT)(r.t) == 0)
            self.assume(self.ufunc('nd_base', OPQ, OPQ)(r.t) == r.t)
        if tag == 'chunk' and name == '__setitem__':
            # filling one field of the writer's own chunk: row count and dtype stay; that field now holds the assigned rows;
            # the other fields keep what they held
            for f_, srt in (('chunk_n_rows', INT), ('chunk_sdtype', OPQ)):
                g = self.ufunc(f_, OPQ, srt)
                self.assume(g(r.t) == g(recv.t))
            key, val = args[0], args[1]
            ff = self.ufunc('chunk_field_first', OPQ, SEQ, INT)
            fs = self.ufunc('chunk_field_src', OPQ, SEQ, OPQ)
            k = self.as_seq(key)
            if val.k == 'opq':
                self.assume(ff(r.t, k) == self.ufunc('nd_first', OPQ, INT)(val.t))
                self.assume(fs(r.t, k) == self.ufunc('nd_base', OPQ, OPQ)(val.t))
                self.assume(self.ufunc('chunk_first_row', OPQ, INT)(r.t) == self.ufunc('nd_first', OPQ, INT)(val.t))
            prev = self.st.ghost.setdefault(('chunk_fields', ), {})
            done = prev.get(str(recv.t), [])
            for pk in done:
                self.assume(z3.Implies(pk != k, z3.And(ff(r.t, pk) == ff(recv.t, pk), fs(r.t, pk) == fs(recv.t, pk))))
            prev[str(r.t)] = done + [k]
        return r


    def call_builtin_method(self, recv, name, args, kw, node):
        if recv.k == 'const' and isinstance(recv.t, tuple) and recv.t and recv.t[0] == 'regex' and name in ('fullmatch', 'match', 'search'):
            s = args[0]
            if not self.is_str_like(s):
                raise PyRaise('TypeError')
            pred = self.lang_symbol(recv.t[1], name)
            if self.branch(pred(self.as_seq(s))):
                return SV('const', ('match-object',))
            return NONE
        return super().call_builtin_method(recv, name, args, kw, node)
