"""Statement execution: single path, exceptions as python exceptions of the executor, loops cut by invariants."""
import ast
import z3
from .values import *
from .engine import HObj, HList, HDict, key_of, Frame
from . import builtins_ as B
from .exprs import _conc_int


def assigned_names(stmts):
    out = set()
    for st in stmts:
        for n in ast.walk(st):
            if isinstance(n, ast.Name) and isinstance(n.ctx, ast.Store):
                out.add(n.id)
    return sorted(out)


class StmtMixin:
    def exec_block(self, stmts):
        for s in stmts:
            self.exec(s)

    def exec(self, s):
        m = getattr(self, 'ex_' + type(s).__name__, None)
        if m is None:
            raise Unsupported(f'statement {type(s).__name__} (line {s.lineno})')
        return m(s)

    def ex_Pass(self, s):
        pass

    def ex_Expr(self, s):
        v = s.value
        if isinstance(v, ast.Constant):
            return                      # D1 docstring
        if isinstance(v, ast.Call) and isinstance(v.func, ast.Attribute) and isinstance(v.func.value, ast.Name) \
                and v.func.value.id in ('logger', 'logging'):
            return                      # D2 logging
        if isinstance(v, ast.Yield):
            self.do_yield(self.ev(v.value) if v.value else NONE, s)
            return
        if isinstance(v, ast.YieldFrom):
            src = self.ev(v.value)
            self.yield_from(src, s)
            return
        self.ev(v)

    def do_yield(self, val, node):
        fr = self.frame
        if hasattr(fr, 'yields'):
            fr.yields.append(val)
            return
        if len(self.st.frames) == 1 or fr.fn_key == self.cur_key:
            self.on_yield(val, node)
            return
        raise Unsupported('yield in unexpected frame')

    def yield_from(self, src, node):
        if src.k == 'gen':
            self.yield_from_gen(src, node)
            return
        for v in self.iter_concrete(src):
            self.do_yield(v, node)

    def ex_Assign(self, s):
        v = self.ev(s.value)
        for t in s.targets:
            self.assign(t, v)

    def ex_AnnAssign(self, s):
        if s.value is not None:
            self.assign(s.target, self.ev(s.value))

    def ex_AugAssign(self, s):
        t = s.target
        op = type(s.op).__name__
        if isinstance(t, ast.Name):
            cur = self.lookup(t.id, t)
            v = self.ev(s.value)
            self.frame.env[t.id] = self.aug(op, cur, v, s)
        elif isinstance(t, ast.Attribute):
            o = self.ev(t.value)
            cur = self.getattr_value(o, t.attr, t)
            v = self.ev(s.value)
            self.store_attr(o, t.attr, self.aug(op, cur, v, s), s)
        elif isinstance(t, ast.Subscript):
            base = self.ev(t.value)
            idx = self.ev(t.slice)
            cur = self.index_value(base, idx, t)
            v = self.ev(s.value)
            self.store_index(base, idx, self.aug(op, cur, v, s), t)
        else:
            raise Unsupported('augassign target')

    def aug(self, op, cur, v, node):
        if cur.k == 'list' and op == 'Add':
            self.st.heap[cur.t].items.extend(self.iter_concrete(v))
            return cur
        return self.binop(op, cur, v, node)

    def assign(self, t, v):
        if isinstance(t, ast.Name):
            self.frame.env[t.id] = v
            return
        if isinstance(t, ast.Attribute):
            o = self.ev(t.value)
            self.store_attr(o, t.attr, v, t)
            return
        if isinstance(t, (ast.Tuple, ast.List)):
            items = self.iter_concrete(v)
            if len(items) != len(t.elts):
                raise PyRaise('ValueError', 'unpack')
            for tt, vv in zip(t.elts, items):
                self.assign(tt, vv)
            return
        if isinstance(t, ast.Subscript):
            if isinstance(t.slice, ast.Slice):
                self.store_slice(t, v)
                return
            base = self.ev(t.value)
            idx = self.ev(t.slice)
            self.store_index(base, idx, v, t)
            return
        raise Unsupported(f'assignment target {ast.unparse(t)}')

    def store_index(self, base, idx, v, node):
        if base.k == 'list':
            ic = _conc_int(self.as_int(idx))
            if ic is None:
                raise Unsupported('symbolic index store')
            items = self.st.heap[base.t].items
            if not -len(items) <= ic < len(items):
                raise PyRaise('IndexError')
            items[ic] = v
            return
        if base.k == 'dict':
            self.st.heap[base.t].d[key_of(idx)] = v
            return
        if base.k == 'opq':
            return self.opq_setitem(base, idx, v, node)
        raise Unsupported(f'item store on {base.k}')

    def opq_setitem(self, base, idx, v, node):
        raise Unsupported('item store on opaque value')

    def store_slice(self, t, v):
        """bytearray slice assignment X[a:b] = v  (A-PY: replaces the slice; python semantics incl. clamping)"""
        base = self.ev(t.value)
        if not (base.k == 'bytes' and base.x == 'bytearray'):
            raise Unsupported('slice assignment on non-bytearray')
        lo = self.ev(t.slice.lower) if t.slice.lower else NONE
        hi = self.ev(t.slice.upper) if t.slice.upper else NONE
        s = base.t
        n = z3.Length(s)

        def norm(x, default):
            if x.k == 'none':
                return default
            xi = self.as_int(x)
            return z3.If(xi < 0, z3.If(xi + n < 0, z3.IntVal(0), xi + n), z3.If(xi > n, n, xi))
        a = norm(lo, z3.IntVal(0))
        b = norm(hi, n)
        b = z3.If(b < a, a, b)
        new = z3.Concat(z3.Extract(s, z3.IntVal(0), a), self.as_seq(v), z3.Extract(s, b, n - b))
        nv = SV('bytes', z3.simplify(new), 'bytearray')
        # write back to where the bytearray lives (attribute or local); aliasing of bytearrays is not modelled:
        tv = t.value
        if isinstance(tv, ast.Attribute):
            o = self.ev(tv.value)
            self.st.heap[o.t].f[tv.attr] = nv
        elif isinstance(tv, ast.Name):
            self.frame.env[tv.id] = nv
        else:
            raise Unsupported('slice assignment target')

    def ex_Return(self, s):
        raise ReturnSig(self.ev(s.value) if s.value else NONE)

    def ex_Raise(self, s):
        if s.exc is None:
            raise PyRaise(self.frame.env.get('__exc__', VC('Exception')).t)
        e = s.exc
        name = ast.unparse(e.func) if isinstance(e, ast.Call) else ast.unparse(e)   # D3: message dropped
        if isinstance(e, ast.Name) and e.id in self.frame.env:
            v = self.frame.env[e.id]
            if v.k == 'const' and isinstance(v.t, tuple) and v.t[0] == 'exception':
                name = v.t[1]
        name = name.split('.')[-1] if name.split('.')[0] in ('cls', 'self') else name
        raise PyRaise(name)

    def ex_Assert(self, s):
        if not self.branch(self.truth(self.ev(s.test))):
            raise PyRaise('AssertionError')

    def ex_If(self, s):
        if self.branch(self.truth(self.ev(s.test))):
            self.exec_block(s.body)
        else:
            self.exec_block(s.orelse)

    def ex_FunctionDef(self, s):
        self.frame.env[s.name] = SV('func', FuncVal(node=s, closure=self.frame.env, owner=self.frame.cls,
                                                    module=self.frame.module, name=s.name))
        if s.decorator_list:
            decs = [ast.unparse(d) for d in s.decorator_list]
            if any(not d.startswith('functools.wraps') and d != 'wraps' for d in decs) and not all('wraps' in d for d in decs):
                raise Unsupported(f'decorated nested function {decs}')

    def ex_Import(self, s):
        pass

    def ex_ImportFrom(self, s):
        pass

    def ex_Global(self, s):
        raise Unsupported('global statement')

    def ex_Break(self, s):
        raise BreakSig()

    def ex_Continue(self, s):
        raise ContinueSig()

    def ex_Delete(self, s):
        raise Unsupported('del')

    # ---------------------------------------------------------------- exceptions
    EXC_PARENTS = {'KeyError': 'LookupError', 'IndexError': 'LookupError', 'LookupError': 'Exception', 'ValueError': 'Exception',
                   'TypeError': 'Exception', 'RuntimeError': 'Exception', 'AttributeError': 'Exception', 'struct.error': 'Exception',
                   'UnicodeEncodeError': 'UnicodeError', 'UnicodeError': 'ValueError', 'ZeroDivisionError': 'ArithmeticError',
                   'ArithmeticError': 'Exception', 'OverflowError': 'ArithmeticError', 'StopIteration': 'Exception',
                   'AssertionError': 'Exception', 'NotImplementedError': 'RuntimeError', 'OSError': 'Exception', 'Exception': 'BaseException',
                   'AnyException': 'Exception'}

    def exc_matches(self, exc, handler_type):
        if handler_type is None:
            return True
        names = []
        if isinstance(handler_type, ast.Tuple):
            names = [ast.unparse(x) for x in handler_type.elts]
        else:
            names = [ast.unparse(handler_type)]
        names = [n.split('.')[-1] if n.split('.')[0] in ('cls', 'self') else n for n in names]
        cur = exc
        seen = 0
        while cur is not None and seen < 20:
            if cur in names or cur.split('.')[-1] in names:
                return True
            nxt = self.EXC_PARENTS.get(cur)
            if nxt is None and cur.split('.')[-1] in self.src.classes:
                ci = self.src.classes[cur.split('.')[-1]]
                nxt = ci.bases[0].split('.')[-1] if ci.bases else None
            cur = nxt
            seen += 1
        return False

    def ex_Try(self, s):
        try:
            self._try_core(s)
        except (PyRaise, ReturnSig, BreakSig, ContinueSig):
            # finally-block runs on every python-level exit; PathEnd/Unsupported (executor-level) propagate untouched
            self.exec_block(s.finalbody)
            raise
        else:
            self.exec_block(s.finalbody)

    def _try_core(self, s):
        try:
            self.exec_block(s.body)
        except PyRaise as r:
            for h in s.handlers:
                if self.exc_matches(r.exc, h.type):
                    if h.name:
                        self.frame.env[h.name] = SV('const', ('exception', r.exc))
                    self.frame.env['__exc__'] = VC(r.exc)
                    self.exec_block(h.body)
                    break
            else:
                raise
        else:
            self.exec_block(s.orelse)

    def ex_With(self, s):
        if len(s.items) != 1:
            raise Unsupported('with: several items')
        it = s.items[0]
        ce = it.context_expr
        if isinstance(ce, ast.Call) and isinstance(ce.func, ast.Name) and ce.func.id == 'open':
            args = [self.ev(a) for a in ce.args]
            h = self.open_file(args, s)
            if it.optional_vars is not None:
                self.assign(it.optional_vars, h)
            self.exec_block(s.body)
            self.close_file(h, s)
            return
        cm = self.ev(ce)
        self.with_context(cm, it, s)

    def with_context(self, cm, it, s):
        raise Unsupported('with statement on this context manager')

    def open_file(self, args, node):
        raise Unsupported('open()')

    def close_file(self, h, node):
        pass

    # ---------------------------------------------------------------- loops
    def loop_contract(self, node):
        """loop contracts are keyed by the loop's ordinal inside the function under verification"""
        c = self.cur_contract or {}
        loops = c.get('loops')
        if not loops:
            return None
        fr = self.frame
        if fr.fn_key != self.cur_key:
            return None
        ordinal = self.loop_ordinals.get(id(node))
        if ordinal is None:
            return None
        if isinstance(loops, dict):
            return loops.get(ordinal)
        return loops[ordinal] if ordinal < len(loops) else None

    def inv_env(self):
        env = dict(self.frame.env)
        return env

    def check_invs(self, lc, kind, node, ordinal):
        for nm, r in self.clauses(lc.get('inv', [])):
            self.oblige(f'{kind}[loop{ordinal}]#{nm}', self.truth(self.ev_spec(r, self.inv_env())), node, aux=True)

    def assume_invs(self, lc):
        for nm, r in self.clauses(lc.get('inv', [])):
            self.assume(self.truth(self.ev_spec(r, self.inv_env())))

    def havoc_loop(self, lc, body, extra_names=()):
        env = self.frame.env
        for m in list(assigned_names(body)) + list(extra_names):
            if m in env:
                if env[m].k in ('obj', 'list', 'dict', 'func', 'gen', 'cls', 'enum', 'super'):
                    del env[m]      # may refer to a different object after the loop: undefined for the rest of the path
                else:
                    env[m] = self.havoc_like(env[m], m)
        for g in lc.get('havoc_ghost', list(self.cur_contract.get('ghost', {}))):
            if g in self.st.ghost:
                self.st.ghost[g] = self.havoc_like(self.st.ghost[g], g)
        for loc in lc.get('havoc', []):
            base, _, field = loc.rpartition('.')
            o = self.ev_spec(base, self.inv_env())
            h = self.st.heap[o.t]
            h.f[field] = self.havoc_like(h.f[field], field)

    def havoc_like(self, v, hint):
        if v.k == 'int':
            return VI(self.sym(hint, INT))
        if v.k == 'bool':
            return VB(self.sym(hint, BOOL))
        if v.k in ('bytes', 'str', 'seq'):
            return SV(v.k, self.sym(hint, SEQ), v.x)
        if v.k == 'const' and isinstance(v.t, (bytes, bytearray)):
            return SV('bytes', self.sym(hint, SEQ))
        if v.k == 'const' and isinstance(v.t, str):
            return SV('str', self.sym(hint, SEQ))
        if v.k == 'opq':
            return SV('opq', self.sym(hint, OPQ), v.x)
        if v.k == 'none':
            return v
        if v.k == 'ref':
            return SV('ref', self.sym(hint, INT))
        if v.k == 'tuple':
            return SV('tuple', tuple(self.havoc_like(x, hint) for x in v.t))
        raise Unsupported(f'havoc of {v.k} ({hint}) - declare its shape in the loop contract')

    def ex_While(self, s):
        lc = self.loop_contract(s)
        if lc is None:
            # no contract: bounded unrolling is not a proof -> only loops whose condition becomes concretely false are accepted
            n = 0
            while True:
                c = z3.simplify(self.truth(self.ev(s.test)))
                if z3.is_false(c):
                    break
                if not z3.is_true(c) or n > 2000:
                    raise Unsupported(f'while loop without invariant (line {s.lineno})')
                try:
                    self.exec_block(s.body)
                except BreakSig:
                    return
                except ContinueSig:
                    pass
                n += 1
            self.exec_block(s.orelse)
            return
        ordinal = self.loop_ordinals[id(s)]
        self.check_invs(lc, 'inv-init', s, ordinal)
        self.havoc_loop(lc, s.body)
        self.assume_invs(lc)
        cond = self.truth(self.ev(s.test))
        if self.branch(cond):
            v0 = self.as_int(self.ev_spec(lc['variant'], self.inv_env())) if 'variant' in lc else None
            try:
                self.exec_block(s.body)
            except ContinueSig:
                pass
            except BreakSig:
                raise Unsupported('break inside a contracted while loop')
            self.check_invs(lc, 'inv-keep', s, ordinal)
            if v0 is not None:
                v1 = self.as_int(self.ev_spec(lc['variant'], self.inv_env()))
                self.oblige(f'variant[loop{ordinal}]', z3.And(v1 < v0, v0 >= 0), s, aux=True)
            raise PathEnd('loop body verified')
        self.exec_block(s.orelse)

    def ex_For(self, s):
        it = self.ev(s.iter)
        if it.k == 'obj':
            it = self.iter_object(it, s)
        if it.k in ('range', 'seq', 'gen'):
            return self.for_symbolic(s, it)
        items = self.iter_concrete(it)
        broke = False
        for v in items:
            self.assign(s.target, v)
            try:
                self.exec_block(s.body)
            except BreakSig:
                broke = True
                break
            except ContinueSig:
                continue
        if not broke:
            self.exec_block(s.orelse)

    def iter_object(self, o, node):
        r = self.call_method(o, '__iter__', [], {}, node)
        return r

    def for_symbolic(self, s, it):
        lc = self.loop_contract(s)
        if lc is None:
            raise Unsupported(f'for loop over a symbolic collection without invariant (line {s.lineno})')
        ordinal = self.loop_ordinals[id(s)]
        env = self.frame.env
        tnames = [n.id for n in ast.walk(s.target) if isinstance(n, ast.Name)]
        if it.k == 'range':
            args = [self.as_int(a) for a in it.t]
            lo, hi = (z3.IntVal(0), args[0]) if len(args) == 1 else (args[0], args[1])
            if len(args) == 3:
                raise Unsupported('range step')
            idx = lc.get('index', tnames[0])
            # ghost iteration index  __i: lo <= __i <= max(lo,hi); done = [lo, __i)
            self.st.ghost['__i'] = VI(lo)
            self.check_invs(lc, 'inv-init', s, ordinal)
            self.havoc_loop(lc, s.body, extra_names=tnames)
            i = self.sym('i', INT)
            self.st.ghost['__i'] = VI(i)
            self.assume(z3.And(i >= lo, z3.Or(i <= hi, i == lo)))
            self.assume_invs(lc)
            if self.branch(i < hi):
                env[tnames[0]] = VI(i)
                try:
                    self.exec_block(s.body)
                except ContinueSig:
                    pass
                except BreakSig:
                    raise Unsupported('break inside a contracted for loop')
                self.st.ghost['__i'] = VI(i + 1)
                self.check_invs(lc, 'inv-keep', s, ordinal)
                raise PathEnd('loop body verified')
            self.exec_block(s.orelse)
            return
        if it.k == 'seq':
            xs = it.t
            self.st.ghost['__done'] = SV('seq', z3.Empty(SEQ), it.x)
            self.st.ghost['__todo'] = SV('seq', xs, it.x)
            self.check_invs(lc, 'inv-init', s, ordinal)
            self.havoc_loop(lc, s.body, extra_names=tnames)
            done, todo = self.sym('done', SEQ), self.sym('todo', SEQ)
            self.assume(xs == z3.Concat(done, todo))
            self.st.ghost['__done'] = SV('seq', done, it.x)
            self.st.ghost['__todo'] = SV('seq', todo, it.x)
            self.assume_invs(lc)
            if self.branch(z3.Length(todo) > 0):
                x = self.sym('x', INT)
                todo2 = self.sym('todo', SEQ)
                self.assume(todo == z3.Concat(z3.Unit(x), todo2))
                self.assign(s.target, SV('ref', x) if it.x == 'ref' else VI(x))
                try:
                    self.exec_block(s.body)
                except ContinueSig:
                    pass
                except BreakSig:
                    raise Unsupported('break inside a contracted for loop')
                self.st.ghost['__done'] = SV('seq', z3.Concat(done, z3.Unit(x)), it.x)
                self.st.ghost['__todo'] = SV('seq', todo2, it.x)
                self.check_invs(lc, 'inv-keep', s, ordinal)
                raise PathEnd('loop body verified')
            self.exec_block(s.orelse)
            return
        if it.k == 'gen':
            return self.for_gen(s, it, lc, ordinal, tnames)
        raise Unsupported('for_symbolic')

    def for_gen(self, s, it, lc, ordinal, tnames):
        """consume a generator that is specified by a contract: each element satisfies the callee's per-yield guarantees
        (proved where the callee is verified) for some callee ghost state"""
        key, c, cenv = it.t
        self.check_invs(lc, 'inv-init', s, ordinal)
        self.havoc_loop(lc, s.body, extra_names=tnames)
        self.assume_invs(lc)
        if self.st.oracle.choose(2) == 0:
            env = dict(cenv)
            for g, (spec, init) in c.get('ghost', {}).items():
                env[g] = self.fresh_of(spec, 'callee_' + g)
            y = self.fresh_of(c['yields'], 'yielded')
            env['yielded'] = y
            for nm, r in self.clauses(c.get('yield_requires', [])):
                self.assume(self.truth(self.ev_spec(r, env)))
            self.assign(s.target, y)
            try:
                self.exec_block(s.body)
            except ContinueSig:
                pass
            except BreakSig:
                raise Unsupported('break inside a contracted for loop')
            self.check_invs(lc, 'inv-keep', s, ordinal)
            raise PathEnd('loop body verified')
        self.exec_block(s.orelse)
