#!/usr/bin/env python3
"""Rebuild the seeded-changes table of DESIGN.md (between the markers) and the confirmed_by_me block of each seeded/*/meta.json from the
JSON results of tools/seeded.py stored under the directory given as argv[1]."""
import glob, json, os, re, sys
resdir = sys.argv[1]
rows = []
for d in sorted(glob.glob('/verif/seeded/*/')):
    sid = os.path.basename(d.rstrip('/'))
    meta = json.load(open(d + 'meta.json'))
    rp = f'{resdir}/{sid}.json'
    if not os.path.exists(rp):
        continue
    res = json.load(open(rp))
    prop = meta['property']
    if meta.get('obsolete') or not res.get('patch_applies'):
        meta['confirmed_by_me'] = {'patch_applies_to_current_tree': bool(res.get('patch_applies')), 'note': meta.get('obsolete', 'patch does not apply to the current tree')}
        json.dump(meta, open(d + 'meta.json', 'w'), indent=1)
        rows.append((sid, '(obsolete) ' + re.sub(r'\s+', ' ', meta.get('obsolete', 'patch no longer applies'))[:150].replace('|', '/'), '-', '-', '-'))
        continue
    chk = res['checks'].get(prop) or list(res['checks'].values())[0]
    obs = [re.sub(r'^obligation failed: ', '', l).split('  (')[0] for l in chk['lines'] if l.startswith('obligation failed')]
    replayed = any('counterexample replayed' in l for l in chk['lines'])
    meta['confirmed_by_me'] = {'patch_applies_to_current_tree': res.get('patch_applies'), 'demo_exit_unpatched': res.get('demo_base_exit'),
                               'demo_exit_patched': res.get('demo_mut_exit'), 'check_exit_patched': {k: v['exit'] for k, v in res['checks'].items()},
                               'failed_obligations': obs[:6], 'counterexample_replayed_on_real_code': replayed,
                               'ran': f'tools/seeded.py seeded/{sid}  (scratch copy of /repo with patch.diff applied; demo.py under /venv/bin/python; '
                                      f'./check {prop} --tier quick with PYVC_SRC=<scratch>)'}
    json.dump(meta, open(d + 'meta.json', 'w'), indent=1)
    summ = meta.get('summary') or ''
    if meta.get('ported', '').startswith('REPLACED') and 'Substituted by ' in meta['ported']:
        summ = '(replaced) ' + meta['ported'].split('Substituted by ')[1].split(';')[0]
    summ = re.sub(r'\s+', ' ', summ)[:150].replace('|', '/')
    rows.append((sid, summ, ', '.join(o.split(':', 1)[1] if ':' in o else o for o in obs[:2]) or '-',
                 'replayed' if replayed else ('bounded witness' if any('bounded' in o for o in obs) else 'no input'), chk['exit']))
tbl = "| id | change | first failing obligations of the property's check | counterexample | exit |\n|---|---|---|---|---|\n"
for r in rows:
    tbl += f'| {r[0]} | {r[1]} | `{r[2][:140]}` | {r[3]} | {r[4]} |\n'
s = open('/verif/DESIGN.md').read()
a, b = s.index('<!-- seeded-table -->'), s.index('<!-- /seeded-table -->')
s = s[:a] + '<!-- seeded-table -->\n' + tbl + s[b:]
open('/verif/DESIGN.md', 'w').write(s)
print(len(rows), 'rows;', sum(1 for r in rows if r[4] == 1), 'caught')
