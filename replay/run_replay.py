"""Replay runner (runs under /venv/bin/python, the interpreter that has the repository's dependencies).

Reads a replay JSON (argv[1]), rebuilds the concrete inputs, calls the REAL function from the source tree named in the
file (PYTHONPATH is set by the caller), evaluates the SAME contract text natively and prints one JSON line:
  {"confirmed": bool, "observed": ..., "failed_clauses": [...]}
"""
import ast
import copy
import importlib
import importlib.util
import inspect
import json
import os
import struct
import sys
import traceback


def load_spec(path):
    if not path or not os.path.exists(path):
        return {}
    spec = importlib.util.spec_from_file_location('rp66spec', path)
    m = importlib.util.module_from_spec(spec)
    spec.loader.exec_module(m)
    return {k: v for k, v in vars(m).items() if not k.startswith('_')}


def modname(rel):
    return 'dliswriter.' + rel[:-3].replace('/', '.').replace('.__init__', '')


class Builder:
    def __init__(self, classes):
        self.classes = classes
        self.objs = {}

    def cls(self, name):
        rel = self.classes[name]
        m = importlib.import_module(modname(rel))
        o = m
        for part in name.split('.'):
            o = getattr(o, part)
        return o

    def build(self, c):
        t = c['t']
        if t in ('int', 'bool', 'str', 'float'):
            return c['v']
        if t == 'none':
            return None
        if t == 'datetime_utc':
            import datetime as _dt
            f = c['v']
            try:
                return _dt.datetime(f['year'], f['month'], min(f['day'], 28), f['hour'], f['minute'], f['second'], f['microsecond'], tzinfo=_dt.timezone.utc)
            except ValueError as e:
                raise ValueError(f'model fields do not form a datetime: {f}: {e}')
        if t == 'bytes':
            return bytes(c['v'])
        if t == 'bytearray':
            return bytearray(c['v'])
        if t == 'tuple':
            return tuple(self.build(x) for x in c['v'])
        if t == 'list':
            return [self.build(x) for x in c['v']]
        if t == 'dict':
            out = {}
            for krepr, v in c['v']:
                k = ast.literal_eval(krepr)          # engine key: ('c', value) | ('i', int) | ('n',) | ('cls', name) ...
                if k[0] in ('c', 'i'):
                    out[k[1]] = self.build(v)
                elif k[0] == 'n':
                    out[None] = self.build(v)
                elif k[0] == 'cls':
                    out[self.cls(k[1])] = self.build(v)
                else:
                    raise ValueError(f'cannot build dict key {krepr}')
            return out
        if t == 'enum':
            return getattr(self.cls(c['cls']), c['member'])
        if t == 'enumv':
            return self.cls(c['cls'])(c['value'])
        if t == 'cls':
            return self.cls(c['v'])
        if t == 'obj':
            if c['id'] in self.objs:
                return self.objs[c['id']]
            k = self.cls(c['cls'])
            shadow = [f for f in c['fields'] if isinstance(inspect.getattr_static(k, f, None), property) and not f.startswith('__cached_')]
            if shadow:
                # the contract abstracts read-only properties by their values: a subclass in which they are plain attributes
                k = type(k.__name__, (k,), {f: None for f in shadow})
            o = k.__new__(k) if k.__new__ is not object.__new__ and issubclass(k, dict) else object.__new__(k)
            self.objs[c['id']] = o
            for f, v in c['fields'].items():
                if f.startswith('__cached_'):
                    o.__dict__[f[9:]] = self.build(v)      # a functools.cached_property value computed in an earlier state of the object
                    continue
                object.__setattr__(o, f, self.build(v))
            return o
        raise ValueError(f'cannot build {t}')


class Pre:
    """substitute old(e) sub-expressions by their pre-state values"""
    def __init__(self, env_pre):
        self.env_pre, self.vals = env_pre, {}

    def rewrite(self, text):
        tree = ast.parse(text.strip(), mode='eval')
        pre = self

        class T(ast.NodeTransformer):
            def visit_Call(self, n):
                if isinstance(n.func, ast.Name) and n.func.id == 'old':
                    nm = f'__old{len(pre.vals)}'
                    pre.vals[nm] = eval(compile(ast.Expression(n.args[0]), '<old>', 'eval'), dict(pre.env_pre))
                    return ast.Name(id=nm, ctx=ast.Load())
                return self.generic_visit(n)
        tree = T().visit(tree)
        ast.fix_missing_locations(tree)
        return compile(tree, '<clause>', 'eval')


def state_diff(a, b, path, allowed, out, seen, depth=0):
    """paths at which the post-state b differs from the deep copy a taken before the call (locations in `allowed` skipped)"""
    if any(path == l or path.startswith(l + '.') or path.startswith(l + '[') for l in allowed) or depth > 8 or len(out) > 20:
        return
    if id(b) in seen:
        return
    if type(a) is not type(b):
        out.append(f'{path}: {type(a).__name__} -> {type(b).__name__}')
        return
    if isinstance(b, (int, float, str, bytes, bool, type(None), type)) or callable(b):
        if not callable(b) and a != b and not (a != a and b != b):
            out.append(f'{path}: {a!r} -> {b!r}')
        return
    seen.add(id(b))
    if type(b).__module__ == 'numpy':
        try:
            if a.dtype != b.dtype or a.shape != b.shape or a.tobytes() != b.tobytes():
                out.append(f'{path}: array content changed')
        except Exception:
            pass
        return
    if isinstance(b, (list, tuple)):
        if len(a) != len(b):
            out.append(f'{path}: length {len(a)} -> {len(b)}')
            return
        for i, (x, y) in enumerate(zip(a, b)):
            state_diff(x, y, f'{path}[{i}]', allowed, out, seen, depth + 1)
        return
    if isinstance(b, dict):
        if list(map(repr, a)) != list(map(repr, b)):
            out.append(f'{path}: keys {list(a)!r} -> {list(b)!r}')
            return
        for (ka, x), (kb, y) in zip(a.items(), b.items()):
            state_diff(x, y, f'{path}[{kb!r}]', allowed, out, seen, depth + 1)
        return
    da, db = getattr(a, '__dict__', None), getattr(b, '__dict__', None)
    if isinstance(db, dict) and isinstance(da, dict):
        for k in sorted(set(da) | set(db)):
            if k not in da or k not in db:
                if not any(f'{path}.{k}' == l for l in allowed):
                    out.append(f'{path}.{k}: ' + ('created' if k in db else 'deleted'))
                continue
            state_diff(da[k], db[k], f'{path}.{k}', allowed, out, seen, depth + 1)


def implies(a, b):
    return (not a) or b


def iff(a, b):
    return bool(a) == bool(b)


def main():
    rp = json.load(open(sys.argv[1]))
    out = {'confirmed': False, 'observed': None, 'failed_clauses': [], 'notes': []}
    try:
        b = Builder(rp['classes'])
        ct = rp['contract']
        spec = load_spec(rp.get('spec_module'))
        args = {k: b.build(v) for k, v in rp['inputs'].items() if k != rp.get('self_name')}
        selfv = b.build(rp['inputs'][rp['self_name']]) if rp.get('self_name') else None
        # resolve function
        target = rp['target']
        cname, _, fname = target.rpartition('.')
        if cname:
            k = b.cls(cname)
            raw = inspect.getattr_static(k, fname)
            if isinstance(raw, property) or hasattr(raw, 'func') and not callable(raw):
                getter = raw.fget if isinstance(raw, property) else raw.func
                if rp.get('kind') == 'set':
                    call = lambda: raw.fset(selfv, **args)
                else:
                    call = lambda: getter(selfv)
            elif isinstance(raw, staticmethod):
                call = lambda: raw.__func__(**args)
            elif isinstance(raw, classmethod):
                call = lambda: raw.__func__(k, **args)
            elif type(raw).__name__ == 'cached_property':
                call = lambda: raw.func(selfv)
            else:
                call = lambda: raw(selfv, **args)
        else:
            if rp['module'].startswith('<verif>/'):
                # a scenario (harness) function of /verif: an importable module of its own
                mp = os.path.join(os.path.dirname(os.path.dirname(os.path.abspath(__file__))), rp['module'][len('<verif>/'):])
                sp_ = importlib.util.spec_from_file_location('scenario_module', mp)
                m = importlib.util.module_from_spec(sp_)
                sp_.loader.exec_module(m)
            else:
                m = importlib.import_module(modname(rp['module']))
            f = getattr(m, fname)
            call = lambda: f(**args)
        env = dict(spec)
        import datetime as _dtm
        env.update({'implies': implies, 'iff': iff, 'struct': struct, 'timezone': _dtm.timezone})
        env.update(args)
        if selfv is not None:
            env['self'] = selfv
        env_pre = copy.deepcopy({k: v for k, v in env.items() if k in args or k == 'self'})
        full_pre = dict(env)
        full_pre.update(env_pre)
        pre = Pre(full_pre)
        ghost = {g: eval(init, dict(env)) for g, (sp, init) in ct.get('ghost', {}).items() if 'fresh' not in init}
        env.update(ghost)
        # preconditions must hold for the replay to be meaningful
        for r in ct.get('requires', []) + ct.get('self_inv', []):
            try:
                if not eval(r, dict(env)):
                    out['notes'].append(f'precondition false on the concrete input: {r}')
                    print(json.dumps(out))
                    return
            except Exception as e:
                out['notes'].append(f'precondition not evaluable: {r}: {e!r}')
        focus = rp.get('focus') or {}
        fkind, fname = focus.get('kind'), focus.get('name')

        def named(lst):
            return [(c[0], c[1]) if isinstance(c, (list, tuple)) else (str(i), c) for i, c in enumerate(lst)]

        def wanted(kind, name=None):
            # only the clause of the failed obligation decides; without focus every clause is checked
            return not fkind or (fkind == kind and (name is None or fname is None or str(name) == str(fname)))
        raised = None
        result = None
        try:
            result = call()
            if ct.get('is_generator') or inspect.isgenerator(result):
                k_ = 0
                for y in result:
                    env['yielded'] = y
                    for nm_, r in named(ct.get('yield_requires_named', ct.get('yield_requires', []))):
                        if wanted('yield-req', nm_) and not eval(pre.rewrite(r), {**env, **pre.vals}):
                            out['failed_clauses'].append(f'yield-req#{nm_} (yield #{k_}): {r}')
                    newg = {g: eval(u, dict(env)) for g, u in ct.get('on_yield', {}).items()}
                    env.update(newg)
                    k_ += 1
                    if k_ > 200000:
                        break
                result = None
        except BaseException as e:     # noqa
            raised = e
        env['result'] = result
        fk_ = 'exc-frame' if raised is not None else 'frame'
        locs_ = ct.get('exc_modifies' if raised is not None else 'modifies')
        if fkind == fk_ and locs_ is not None:
            if ct.get('has_stubs'):
                out['notes'].append('frame obligation of a contract with abstract callees: the real callees write state of their own, no native verdict')
            else:
                diffs = []
                for nm_ in env_pre:
                    state_diff(env_pre[nm_], env.get(nm_), nm_, locs_, diffs, set())
                for d_ in diffs:
                    out['failed_clauses'].append(f'{fk_}: written outside the declared frame: {d_}')
        if raised is not None:
            en = type(raised).__name__
            full = f'{type(raised).__module__}.{en}' if type(raised).__module__ != 'builtins' else en
            out['observed'] = {'raised': full, 'message': str(raised)[:300]}
            cond = None
            for d, c in ct.get('raises', {}).items():
                if d == full or d.split('.')[-1] == en:
                    cond = c
            if cond is None:
                # a subclass of a declared exception?
                for d, c in ct.get('raises', {}).items():
                    try:
                        dk = eval(d, {'struct': struct, **vars(__import__('builtins'))})
                        if isinstance(raised, dk):
                            cond = c
                    except Exception:
                        pass
            allowed = any(m_ == full or m_.split('.')[-1] == en or m_ == 'AnyException' for m_ in ct.get('may_raise', []))
            if cond is None and not allowed:
                if wanted('raises-only-if'):
                    out['failed_clauses'].append(f'undeclared exception {full}: {str(raised)[:200]}')
            elif cond is not None and wanted('raises-only-if') and not eval(cond, dict(full_pre)):
                out['failed_clauses'].append(f'raised {full} although its condition is false: {cond}')
            elif fkind and fkind.startswith('post'):
                out['notes'].append(f'the call raised {full}; the postcondition of the failed obligation cannot be evaluated on this input')
        else:
            out['observed'] = {'returned': repr(result)[:400]}
            for d, c in ct.get('raises', {}).items():
                if not wanted('noraise-outside', d):
                    continue
                try:
                    if eval(c, dict(full_pre)):
                        out['failed_clauses'].append(f'returned normally although {d} was required: {c}')
                except Exception as e:
                    out['notes'].append(f'raises clause not evaluable natively: {c}: {e!r}')
            for nm_, r in named(ct.get('ensures_named', ct.get('ensures', []))):
                if not wanted('post', nm_):
                    continue
                try:
                    ok = eval(pre.rewrite(r), {**env, **pre.vals})
                except Exception as e:
                    ok = True       # not evaluable natively (uninterpreted specification function ...): no verdict from this clause
                    out['notes'].append(f'clause not evaluable natively ({e!r}): {r}')
                if not ok:
                    out['failed_clauses'].append(f'post#{nm_}: {r}')
        out['confirmed'] = bool(out['failed_clauses'])
    except BaseException as e:       # noqa
        out['notes'].append('replay harness error: ' + ''.join(traceback.format_exception_only(type(e), e)).strip())
        out['harness_error'] = True
    print(json.dumps(out))


main()
