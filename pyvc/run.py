"""ad-hoc runner used during development: python3-vt -m pyvc.run <contracts module> [keys...]"""
import importlib, sys, time
from .source import Source
from .verify import Executor, explore
from .solve import discharge, hyps_consistent

def main():
    mod = importlib.import_module(sys.argv[1])
    keys = [a for a in sys.argv[2:] if not a.startswith('-')] or [k for k, c in mod.CONTRACTS.items() if not c.get('axiom')]
    src = Source()
    from . import registry
    reg = registry.load()
    ex = Executor(src, reg.contracts, reg.models, reg.spec_funcs(src))
    ex.opq_model_table = reg.opq_models
    ex.spec_ufs = reg.spec_ufs
    t0 = time.time(); tot = bad = 0
    for key in keys:
        c = mod.CONTRACTS[key]
        res, unsup = explore(ex, key, c)
        for u in unsup: print('UNSUPPORTED', u)
        print(f'== {key}: {len(res)} paths')
        for pr in res:
            for ob in pr.obligations:
                r = discharge(ob); tot += 1
                ok = r['status'] == 'discharged'
                if not ok: bad += 1
                if not ok or '-v' in sys.argv:
                    print(f"{'ok ' if ok else 'FAIL'} {ob.key:70s} case{pr.case} path{pr.prefix} {r['status']} {r['by']} {r['seconds']:.2f}s {ob.info}")
    print(f'{tot} obligations, {bad} not discharged, {time.time()-t0:.1f}s')
main()
