"""Witness for the open finding P11a (C05): a user-supplied ELEMENT-LIMIT larger than the data dimension is overwritten with the dimension
when the frame is set up from data.  Exit 1 while it reproduces."""
import sys
import numpy as np
from dliswriter import DLISFile
df = DLISFile(); lf = df.add_logical_file(); lf.add_origin('O', file_set_number=1)
c = lf.add_channel('IMG', data=np.zeros((4, 2)), element_limit=[10])
fr = lf.add_frame('F', channels=(c,))
df.generate_logical_records(None)
print('element_limit after set-up:', c.element_limit.value)
sys.exit(1 if c.element_limit.value != [10] else 0)
