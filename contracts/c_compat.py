"""Contracts: C17 high-compatibility mode (restore, enforce, no leak) and the pieces of C14 that concern the process-global flag."""
GC = {'global_config': {'cls': 'DLISWriterConfig', 'fields': {'high_compat_mode': 'bool'}}}
FLAG = 'global_config.high_compat_mode'

CONTRACTS = {
 'high_compatibility_mode': dict(
    props=['C17', 'C14'], globals=GC, params={}, returns='none',
    yield_requires=[('mode-on-inside', f'{FLAG} == True')],
    yield_havoc=[FLAG], yield_may_raise=True, may_raise=['AnyException'],
    ensures=[('restored-on-normal-exit', f'{FLAG} == old({FLAG})')],
    exc_ensures=[('restored-on-exception', f'{FLAG} == old({FLAG})')]),
 'high_compatibility_mode_decorator.wrapper': dict(
    props=['C17', 'C14'], globals=GC, params={'args': [], 'kwargs': {}}, closure={'func': 'stubfn'}, returns='none',
    stub_havoc=[FLAG],
    ensures=[('restored-on-normal-exit', f'{FLAG} == old({FLAG})')],
    exc_ensures=[('restored-on-exception', f'{FLAG} == old({FLAG})')]),
 'raise_or_warn': dict(
    props=['C17'], globals=GC, params={'message': 'str'}, returns='none',
    raises={'RuntimeError': FLAG},
    ensures=[]),
 'validate_string': dict(
    props=['C17'], globals=GC, params={'s': 'str'}, returns='str',
    raises={'ValueError': f'{FLAG} and not hc_name_ok(s)'},
    ensures=[('identity', 'result == s'), ('only-compatible-names-in-the-mode', f'implies({FLAG}, hc_name_ok(result))')]),
 'ValidatorEnum.make_converter.converter': dict(
    props=['C17'], globals=GC, params={'v': 'str'}, returns='str',
    closure={'cls': 'cls:Unit', 'label': 'str?', 'allow_none': 'bool', 'soft': 'bool'},
    raises={'ValueError': f'not enum_member("Unit", v) and (not soft or {FLAG})'},
    ensures=[('accepted-value-unchanged', 'result == v'),
             ('in-the-mode-only-members', f'implies({FLAG}, enum_member("Unit", result))')]),
}

OSET = {'cls': 'OriginSet', 'fields': {'set_name': 'none', '_eflr_item_list': 'seqlist[ref]'}}
for _fsn in ('none', 'opq:uval'):
    CONTRACTS[f'OriginItem.__init__[file_set_number={"given" if _fsn != "none" else "absent"}]'] = dict(
        target='OriginItem.__init__', props=['C17', 'C14', 'C09'], globals=GC, self_fields={},
        params={'name': 'str', 'parent': OSET, 'origin_reference': 'int', 'kwargs': ({'file_set_number': _fsn} if _fsn != 'none' else {})},
        returns='none', ghost={'rng_calls': ('int', '0'), 'clock_reads': ('int', '0')},
        requires=(["kwargs['file_set_number'] is not None"] if _fsn != 'none' else []),
        ref_fields={'name': 'str', '_copy_number': 'int', '_origin_reference': 'int?'},
        may_raise=['AnyException', 'ValueError', 'TypeError'],
        ensures=[('file-set-number-present', 'self.file_set_number._value is not None'),
                 ('in-the-mode-sequential-small-number-not-random',
                  f'implies({FLAG} and {"False" if _fsn != "none" else "True"}, rng_calls == 0 and self.file_set_number._value == converted(self.file_set_number, len(parent._eflr_item_list)))'),
                 ('random-number-only-when-none-was-supplied', f'rng_calls <= {0 if _fsn != "none" else 1}'),
                 ('outside-the-mode-a-random-number-in-range', f'implies(not {FLAG} and {"False" if _fsn != "none" else "True"}, rng_calls == 1)')])

OPQ_MODELS = {'sdtype2': {'names': 'consttuple:K0,K1', '__getitem__': 'method:opq:dtype', '__isinstance__': {}, '__truthy__': True}}
SPEC_UFS = {'issubdtype_np_signedinteger': (('opq',), 'bool')}
SIGNED = lambda k: f"issubdtype_np_signedinteger(data._dtype['{k}'].base)"
CONTRACTS['LogicalFile._check_data'] = dict(
    props=['C17'], globals=GC, params={'data': {'cls': 'SourceDataWrapper', 'fields': {'_dtype': 'opq:sdtype2'}}}, returns='none',
    raises={'RuntimeError': f'{FLAG} and ({SIGNED("K0")} or {SIGNED("K1")})'},
    ensures=[])

CONTRACTS['StorageUnitLabel.__init__'] = dict(
    props=['C17', 'C01', 'C12'], globals=GC, self_fields={},
    params={'set_identifier': 'str', 'sequence_number': 'int', 'max_record_length': 'int'}, returns='none',
    raises={'ValueError': f'({FLAG} and not hc_name_ok(set_identifier)) or max_record_length > 16384'},
    ensures=[('fields', 'self.sequence_number == sequence_number and self.set_identifier == set_identifier and self.max_record_length == max_record_length'),
             ('only-compatible-set-identifier-in-the-mode', f'implies({FLAG}, hc_name_ok(self.set_identifier))')])
FHSET = {'cls': 'FileHeaderSet', 'fields': {'set_name': 'none', '_eflr_item_list': 'seqlist[ref]'}}
CONTRACTS['FileHeaderItem.__init__'] = dict(
    props=['C17', 'C09', 'C12'], globals=GC, self_fields={},
    params={'header_id': 'str', 'parent': FHSET, 'sequence_number': 'int', 'identifier': 'str'}, returns='none',
    ref_fields={'name': 'str', '_copy_number': 'int', '_origin_reference': 'int?'},
    raises={'ValueError': f'len(header_id) > 65 or sequence_number <= 0 or sequence_number > 9999999999 or len(identifier) != 1 or '
                          f'({FLAG} and (not hc_name_ok(header_id) or not hc_name_ok(identifier)))'},
    ensures=[('header-id-fits-its-65-column-field', 'len(self.header_id) <= 65'), ('sequence-number-fits-10-digits', '0 < self.sequence_number and self.sequence_number <= 9999999999'),
             ('only-compatible-id-in-the-mode', f'implies({FLAG}, hc_name_ok(self.header_id))'),
             ('registered-in-its-header-set', 'parent._eflr_item_list == old(parent._eflr_item_list) + [self]')])

# ---------------------------------------------------------------------------------------------- C17 scenarios (client-level harnesses)
# The same three facts as the contracts on high_compatibility_mode / its decorator above, stated on small client programs
# (/verif/scenarios/s_c17.py) so that they do not depend on HOW the library implements the context manager.
for _sc, _n in (('scenario_mode_with_block', 0), ('scenario_mode_nested_with_blocks', 2), ('scenario_mode_nested_decorated_calls', 2)):
    _p = 'body_raises' if _n == 0 else 'inner_raises'
    CONTRACTS[_sc] = dict(
        props=['C17', 'C14'], globals=GC, must_return=True, params={_p: 'bool'}, returns='tuple[bool,opq:any,bool]' if _n == 0 else None,
        ensures=[('previous-mode-restored-normally-or-by-exception-nested-or-not', 'result[2] == result[0]')] +
                ([('mode-on-inside', 'result[1] == True')] if _n == 0 else
                 [('mode-on-inside-both-levels', 'len(result[1]) == 2 and result[1][0] == True and result[1][1] == True')]))
