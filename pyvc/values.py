"""Symbolic values of the pyvc executor."""
import z3

INT = z3.IntSort()
BOOL = z3.BoolSort()
SEQ = z3.SeqSort(INT)            # bytes / bytearray / str (code points)
OPQ = z3.DeclareSort('Opaque')   # opaque python values (floats, datetimes, numpy things ...)
REF = INT                        # object identities when objects live inside symbolic sequences
RSEQ = z3.SeqSort(INT)


class SV:
    """kind k, payload t.
    int/bool: z3 term | none | bytes/str: z3 Seq(Int) | const: concrete python value (str, bytes, float, ...)
    tuple: python tuple of SV | list/dict/obj: heap id | cls: class name | func: FuncVal | enum: (cls, member)
    opq: z3 Opaque term (x = type tag) | seq: z3 Seq(Int) of x-typed elements (x in int/ref)"""
    __slots__ = ('k', 't', 'x')

    def __init__(self, k, t=None, x=None):
        self.k, self.t, self.x = k, t, x

    def __repr__(self):
        return f'SV({self.k},{self.t}{"," + str(self.x) if self.x is not None else ""})'


def VI(t):
    return SV('int', t if z3.is_expr(t) else z3.IntVal(int(t)))


def VB(t):
    return SV('bool', t if z3.is_expr(t) else z3.BoolVal(bool(t)))


def VBY(t):
    return SV('bytes', t)


def VS(t):
    return SV('str', t)


def VC(v):
    if v is None:
        return NONE
    if isinstance(v, bool):
        return VB(v)
    if isinstance(v, int):
        return VI(v)
    if isinstance(v, tuple):
        return SV('tuple', tuple(VC(x) for x in v))
    return SV('const', v)


NONE = SV('none')


class FuncVal:
    """A python-level callable known to the engine: lambda / def (with closure), bound method, builtin marker."""
    def __init__(self, node=None, closure=None, bound=None, owner=None, name=None, module=None, builtin=None):
        self.node, self.closure, self.bound, self.owner, self.name, self.module, self.builtin = \
            node, closure, bound, owner, name, module, builtin


def seq_of_bytes(b):
    if len(b) == 0:
        return z3.Empty(SEQ)
    us = [z3.Unit(z3.IntVal(x)) for x in b]
    return us[0] if len(us) == 1 else z3.Concat(*us)


def seq_of_str(s):
    return seq_of_bytes([ord(c) for c in s])


class PyRaise(Exception):
    """A python exception raised by the code under analysis (control flow of the executor)."""
    def __init__(self, exc, info=''):
        self.exc, self.info = exc, info


class ReturnSig(Exception):
    def __init__(self, v):
        self.v = v


class BreakSig(Exception):
    pass


class ContinueSig(Exception):
    pass


class Unsupported(Exception):
    pass


class RetryPath(Exception):
    """the path must be executed again from the same decisions (the inferred loop frame grew)"""
    pass


class PathEnd(Exception):
    """path abandoned (loop body cut, infeasible, assumption false)"""
    pass
