"""Contracts: C17 high-compatibility mode (restore, enforce, no leak) and the pieces of C14 that concern the process-global flag."""
GC = {'global_config': {'cls': 'DLISWriterConfig', 'fields': {'high_compat_mode': 'bool'}}}
FLAG = 'global_config.high_compat_mode'

CONTRACTS = {
 'high_compatibility_mode': dict(
    props=['C17', 'C14'], globals=GC, params={}, returns='none',
    yield_requires=[('mode-on-inside', f'{FLAG} == True')],
    yield_havoc=[FLAG], yield_may_raise=True, may_raise=['AnyException'],
    ensures=[('restored-on-normal-exit', f'{FLAG} == old({FLAG})')],
    exc_ensures=[('restored-on-exception', f'{FLAG} == old({FLAG})')]),
 'high_compatibility_mode_decorator.wrapper': dict(
    props=['C17', 'C14'], globals=GC, params={'args': [], 'kwargs': {}}, closure={'func': 'stubfn'}, returns='none',
    stub_havoc=[FLAG],
    ensures=[('restored-on-normal-exit', f'{FLAG} == old({FLAG})')],
    exc_ensures=[('restored-on-exception', f'{FLAG} == old({FLAG})')]),
 'raise_or_warn': dict(
    props=['C17'], globals=GC, params={'message': 'str'}, returns='none',
    raises={'RuntimeError': FLAG},
    ensures=[]),
 'validate_string': dict(
    props=['C17'], globals=GC, params={'s': 'str'}, returns='str',
    raises={'ValueError': f'{FLAG} and not hc_name_ok(s)'},
    ensures=[('identity', 'result == s'), ('only-compatible-names-in-the-mode', f'implies({FLAG}, hc_name_ok(result))')]),
 'ValidatorEnum.make_converter.converter': dict(
    props=['C17'], globals=GC, params={'v': 'str'}, returns='str',
    closure={'cls': 'cls:Unit', 'label': 'str?', 'allow_none': 'bool', 'soft': 'bool'},
    raises={'ValueError': f'not enum_member("Unit", v) and (not soft or {FLAG})'},
    ensures=[('accepted-value-unchanged', 'result == v'),
             ('in-the-mode-only-members', f'implies({FLAG}, enum_member("Unit", result))')]),
}
