"""Discharge obligations: z3 (python API) first; cvc5 / z3-4.8 CLIs on the same SMT-LIB text as second opinions."""
import os
import subprocess
import tempfile
import time
import z3

QUICK_MS = int(os.environ.get('PYVC_TIMEOUT_MS', '10000'))




class SeqAbstraction:
    """Over-approximate formulas over sequences by pure integer/boolean ones: |t| becomes an integer unknown >= 0 (after
    z3's own rewriting of lengths of concatenations), every other atom that mentions a sequence becomes a boolean unknown
    (the same unknown for the same atom).  unsat of the abstraction implies unsat of the original."""
    _shared_cache = {}      # ast id -> (ast kept alive, translation, side conditions): hypotheses are shared by many obligations
    _keep = []

    def __init__(self):
        self.cache, self.side = {}, []

    def is_seq(self, t):
        return z3.is_seq(t) or z3.is_string(t)

    def mentions_seq(self, t):
        key = ('m', t.get_id())
        if key in self.cache:
            return self.cache[key]
        r = self.is_seq(t) or any(self.mentions_seq(c) for c in t.children())
        self.cache[key] = r
        return r

    def tr(self, t):
        key = t.get_id()
        if key in self.cache:
            return self.cache[key]
        r = self._tr(t)
        self.cache[key] = r
        return r

    def _tr(self, t):
        if not z3.is_app(t) or not self.mentions_seq(t):
            return t
        k = t.decl().kind()
        if k == z3.Z3_OP_SEQ_LENGTH:
            v = z3.Int(f'len!{t.get_id()}')
            self.side.append(v >= 0)
            return v
        srt = t.sort()
        if any(self.is_seq(c) for c in t.children()) or self.is_seq(t):
            # an application over sequence arguments: opaque value of its sort
            if z3.is_bool(t):
                return z3.Bool(f'atom!{t.get_id()}')
            if z3.is_int(t):
                return z3.Int(f'term!{t.get_id()}')
            if self.is_seq(t):
                return t     # only reachable inside other seq terms that were cut above
            return z3.Const(f'term!{t.get_id()}', srt)
        ch = [self.tr(c) for c in t.children()]
        try:
            return t.decl()(*ch)
        except z3.Z3Exception:
            if z3.is_bool(t):
                return z3.Bool(f'atom!{t.get_id()}')
            return z3.Const(f'term!{t.get_id()}', srt)

    def formulas(self, fs):
        out = []
        sides = []
        sc = SeqAbstraction._shared_cache
        for f in fs:
            k = f.get_id()
            hit = sc.get(k)
            if hit is None:
                a = SeqAbstraction.__new__(SeqAbstraction)
                a.cache, a.side = {}, []
                t = a.tr(ssimplify(f))
                hit = (f, t, list(a.side))
                if len(sc) > 200000:
                    sc.clear()
                sc[k] = hit
            out.append(hit[1])
            sides.extend(hit[2])
        self.side = sides
        return out + sides


def abstract_check(formulas, timeout_ms=2000):
    """check the sequence-free over-approximation; returns 'unsat' (then the original is unsat) or 'maybe'"""
    try:
        a = SeqAbstraction()
        fs = a.formulas(formulas)
        s = z3.Solver()
        s.set('timeout', timeout_ms)
        s.add(*fs)
        return 'unsat' if s.check() == z3.unsat else 'maybe'
    except z3.Z3Exception:
        return 'maybe'


def to_smt2(hyps, goal):
    s = z3.Solver()
    s.add(*hyps)
    s.add(z3.Not(goal))
    return s.to_smt2()


def run_cli(cmd, text, timeout_s):
    with tempfile.NamedTemporaryFile('w', suffix='.smt2', delete=False, dir=os.environ.get('VERIF_SCRATCH', '/var/tmp')) as f:
        f.write(text)
        path = f.name
    try:
        t = time.time()
        try:
            p = subprocess.run(cmd + [path], capture_output=True, text=True, timeout=timeout_s + 5)
            out = (p.stdout or '').strip().splitlines()
            res = out[0].strip() if out else 'unknown'
            if res not in ('sat', 'unsat', 'unknown'):
                res = 'unknown'
        except subprocess.TimeoutExpired:
            res = 'unknown'
        return res, time.time() - t
    finally:
        os.unlink(path)


def race_cli(text, timeout_s):
    """run cvc5 and z3 4.8 concurrently on the same file; stop as soon as one of them answers sat/unsat"""
    with tempfile.NamedTemporaryFile('w', suffix='.smt2', delete=False, dir=os.environ.get('VERIF_SCRATCH', '/var/tmp')) as f:
        f.write(text)
        path = f.name
    cmds = {'cvc5-1.0.3': ['/usr/bin/cvc5', '--lang=smt2', '--strings-exp', f'--tlimit={int(timeout_s * 1000)}', path],
            'z3-4.8.12': ['/usr/bin/z3', '-smt2', f'-T:{int(timeout_s)}', '-memory:4000', path]}
    procs = {nm: subprocess.Popen(c, stdout=subprocess.PIPE, stderr=subprocess.DEVNULL, text=True) for nm, c in cmds.items()}
    out = {}
    deadline = time.time() + timeout_s + 3
    try:
        while procs and time.time() < deadline:
            for nm, p_ in list(procs.items()):
                if p_.poll() is not None:
                    lines = (p_.stdout.read() or '').strip().splitlines()
                    r = lines[0].strip() if lines else 'unknown'
                    out[nm] = r if r in ('sat', 'unsat') else 'unknown'
                    del procs[nm]
                    if out[nm] in ('sat', 'unsat'):
                        deadline = 0
            time.sleep(0.02)
    finally:
        for nm, p_ in procs.items():
            p_.kill()
            p_.wait()
            out.setdefault(nm, 'unknown')
        os.unlink(path)
    return out


def cvc5_check(text, timeout_s):
    return run_cli(['/usr/bin/cvc5', '--lang=smt2', '--strings-exp', f'--tlimit={int(timeout_s * 1000)}'], text, timeout_s)


def cvc5_model_payload(formulas, on_model, timeout_s):
    """counter-model from cvc5 when z3 cannot produce one (long sequences): ask cvc5 for the values of the Int / Bool / (Seq Int)
    constants, re-assert them as equalities in z3 (trivially satisfiable) and hand that z3 model to on_model"""
    import re
    s = z3.Solver()
    s.add(*formulas)
    text = '(set-option :produce-models true)\n' + s.to_smt2() + '\n(get-model)\n'
    with tempfile.NamedTemporaryFile('w', suffix='.smt2', delete=False, dir=os.environ.get('VERIF_SCRATCH', '/var/tmp')) as f:
        f.write(text)
        path = f.name
    try:
        try:
            p = subprocess.run(['/usr/bin/cvc5', '--lang=smt2', '--strings-exp', f'--tlimit={int(timeout_s * 1000)}', path],
                               capture_output=True, text=True, timeout=timeout_s + 5)
        except subprocess.TimeoutExpired:
            return None
        out = p.stdout or ''
        if not out.lstrip().startswith('sat'):
            return None
        body = out[out.index('sat') + 3:]
        # top-level (define-fun name () Sort value) entries
        defs, depth, start = [], 0, None
        for i, ch in enumerate(body):
            if ch == '(':
                depth += 1
                if depth == 2:
                    start = i
            elif ch == ')':
                if depth == 2 and start is not None:
                    defs.append(body[start:i + 1])
                depth -= 1
        eqs = []
        for d in defs:
            m = re.match(r'\(define-fun\s+(\|[^|]*\||\S+)\s+\(\)\s+(Int|Bool|\(Seq Int\))\s+(.*)\)\s*$', d, re.S)
            if not m:
                continue
            name, sort, val = m.group(1), m.group(2), m.group(3).strip()
            try:
                fs_ = z3.parse_smt2_string(f'(declare-const {name} {sort})\n(assert (= {name} {val}))')
                eqs.extend(list(fs_))
            except z3.Z3Exception:
                continue
        if not eqs:
            return None
        s2 = z3.Solver()
        s2.set('timeout', 5000)
        s2.add(*eqs)
        if s2.check() != z3.sat:
            return None
        try:
            pl = on_model(s2.model())
            if isinstance(pl, dict):
                pl['model_from'] = 'cvc5 (values of the constants re-asserted in z3)'
            return pl
        except BaseException:       # noqa
            return None
    finally:
        os.unlink(path)


def z3old_check(text, timeout_s):
    return run_cli(['/usr/bin/z3', '-smt2', f'-T:{int(timeout_s)}'], text, timeout_s)


_BIG = None


def has_big_numeral(formulas, limit=100000):
    import re
    global _BIG
    if _BIG is None:
        _BIG = re.compile(r'(?<![\w!.])\d{6,}(?![\w!])')
    for f in formulas:
        if _BIG.search(f.sexpr()):
            return True
    return False


def inprocess_check(formulas, timeout_s, on_model=None):
    """z3 in this process with its own timeout, plus a SIGALRM watchdog (same thread, so no fork/thread hazards) that
    interrupts the context if z3 overruns its budget"""
    import signal
    import threading
    s = z3.Solver()
    s.set('timeout', int(timeout_s * 1000))
    s.add(*formulas)
    use_alarm = threading.current_thread() is threading.main_thread()
    old = None
    if use_alarm:
        def on_alarm(signum, frame):
            try:
                s.ctx.interrupt()
            except Exception:
                pass
        old = signal.signal(signal.SIGALRM, on_alarm)
        signal.setitimer(signal.ITIMER_REAL, timeout_s + 1.0)
    try:
        res = str(s.check())
    except z3.Z3Exception:
        res = 'unknown'
    finally:
        if use_alarm:
            signal.setitimer(signal.ITIMER_REAL, 0)
            signal.signal(signal.SIGALRM, old)
    payload = None
    if res == 'sat' and on_model is not None:
        try:
            payload = on_model(s.model())
        except BaseException as e:      # noqa
            payload = {'error': repr(e)}
    return res, payload


def isolated_check(formulas, timeout_s, on_model=None, mem_mb=None):
    """run z3 (python API) on the formulas in a forked child with a hard time and address-space limit.
    Returns (result string, payload from on_model or None).  A child that dies or times out yields 'unknown'."""
    import json
    import resource
    import select
    import signal
    mem_mb = mem_mb or int(os.environ.get('PYVC_Z3_MEM_MB', '4000'))
    r, w = os.pipe()
    pid = os.fork()
    if pid == 0:
        code = 0
        try:
            os.close(r)
            lim = mem_mb * 1024 * 1024
            resource.setrlimit(resource.RLIMIT_AS, (lim, lim))
            s = z3.Solver()
            s.set('timeout', int(timeout_s * 1000))
            s.add(*formulas)
            res = str(s.check())
            payload = None
            if res == 'sat' and on_model is not None:
                try:
                    payload = on_model(s.model())
                except BaseException as e:      # noqa
                    payload = {'error': repr(e)}
            os.write(w, json.dumps({'res': res, 'payload': payload}).encode())
        except BaseException:                   # noqa
            code = 1
        finally:
            os._exit(code)
    os.close(w)
    buf = b''
    deadline = time.time() + timeout_s + 2.0
    try:
        while True:
            left = deadline - time.time()
            if left <= 0:
                break
            rl, _, _ = select.select([r], [], [], left)
            if not rl:
                break
            chunk = os.read(r, 1 << 16)
            if not chunk:
                break
            buf += chunk
    finally:
        os.close(r)
        try:
            os.kill(pid, signal.SIGKILL)
        except ProcessLookupError:
            pass
        os.waitpid(pid, 0)
    if not buf:
        return 'unknown', None
    try:
        d = json.loads(buf.decode())
        return d['res'], d['payload']
    except ValueError:
        return 'unknown', None


_small_cache = {}


def small(t, limit=400):
    """True if the term has at most `limit` nodes (DAG-unaware count with early exit)"""
    k = (t.get_id(), limit)
    if k in _small_cache:
        return _small_cache[k][1]
    r = _small(t, limit)
    if len(_small_cache) > 200000:
        _small_cache.clear()
    _small_cache[k] = (t, r)
    return r


def _small(t, limit):
    n = 0
    stack = [t]
    while stack:
        x = stack.pop()
        n += 1
        if n > limit:
            return False
        stack.extend(x.children())
    return True


def ssimplify(t, limit=400):
    """z3.simplify for small terms only: on big sequence terms z3's rewriter lifts if-then-else over concatenation, which is exponential"""
    return z3.simplify(t) if small(t, limit) else t


def concat_leaves(t):
    out = []
    stack = [t]
    while stack:
        x = stack.pop()
        k = x.decl().kind() if z3.is_app(x) else None
        if k == z3.Z3_OP_SEQ_CONCAT:
            stack.extend(reversed(x.children()))
        elif k == z3.Z3_OP_SEQ_EMPTY:
            continue
        else:
            out.append(x)
    return out


def syntactic_equal(goal):
    """goal is  a == b  over sequences whose flattened concatenations coincide leaf by leaf (structural identity)"""
    if not (z3.is_app(goal) and goal.decl().kind() == z3.Z3_OP_EQ):
        return False
    a, b = goal.arg(0), goal.arg(1)
    if not z3.is_seq(a):
        return a.eq(b)
    la, lb = concat_leaves(a), concat_leaves(b)
    return len(la) == len(lb) and all(x.eq(y) for x, y in zip(la, lb))


def discharge(ob, timeout_ms=None, portfolio='fallback', on_model=None):
    """returns dict(status = discharged|refuted|unknown|disagree, solver, seconds, model_payload, by={solver: result})"""
    timeout_ms = timeout_ms or QUICK_MS
    t0 = time.time()
    if syntactic_equal(ob.goal):
        return dict(status='discharged', solver='syntactic identity', seconds=0.0, model=None, by={'syntactic': 'unsat'})
    g = ssimplify(ob.goal)
    by = {}
    if z3.is_true(g):
        return dict(status='discharged', solver='simplifier', seconds=0.0, model=None, by={'simplifier': 'unsat'})
    fs = list(ob.hyps) + [z3.Not(ob.goal)]
    if abstract_check(fs) == 'unsat':
        return dict(status='discharged', solver='z3-5.1(seq-free abstraction)', seconds=time.time() - t0, model=None, by={'z3-5.1': 'unsat'})
    # order of attack (measured: z3 4.8 answers in 0.1 s several sequence goals on which z3 5.1 spins for 20 s, cvc5 decides others):
    #   1. z3 5.1 in-process, 3 s (only when no numeral could force a huge sequence model)
    #   2. cvc5 and z3 4.8 racing as subprocesses on the SMT-LIB text
    #   3. z3 5.1 in a forked child with the full budget
    r, payload = 'unknown', None
    big = has_big_numeral(fs)
    if not big:
        r, payload = inprocess_check(fs, min(timeout_ms, 3000) / 1000.0, on_model)
    by['z3-5.1'] = r
    status = {'unsat': 'discharged', 'sat': 'refuted'}.get(r, 'unknown')
    solver = 'z3-5.1'
    text = None
    if status == 'unknown':
        text = to_smt2(ob.hyps, ob.goal)
        for nm, rr in race_cli(text, max(timeout_ms / 1000.0, 20.0)).items():
            by[nm] = rr
            if rr in ('sat', 'unsat'):
                st2 = 'discharged' if rr == 'unsat' else 'refuted'
                if status == 'unknown':
                    status, solver = st2, nm
                elif status != st2:
                    status = 'disagree'
    if status == 'unknown' or (status == 'refuted' and payload is None and on_model is not None):
        # last resort, and the way to get a model (inputs for the replay) when a command-line solver found the counterexample
        r3, payload3 = isolated_check(fs, timeout_ms / 1000.0, on_model)
        if r3 in ('sat', 'unsat'):
            by['z3-5.1'] = r3
            st3 = 'discharged' if r3 == 'unsat' else 'refuted'
            if status == 'unknown':
                status, solver = st3, 'z3-5.1'
            elif status != st3:
                status = 'disagree'
            if payload3 is not None:
                payload = payload3
    if status == 'refuted' and payload is None and on_model is not None and by.get('cvc5-1.0.3') == 'sat':
        payload = cvc5_model_payload(fs, on_model, max(timeout_ms / 1000.0, 20.0))
    if portfolio == 'all' and text is None:
        text = to_smt2(ob.hyps, ob.goal)
    if portfolio == 'all':
        for nm, fn in (('cvc5-1.0.3', cvc5_check), ('z3-4.8.12', z3old_check)):
            if nm in by and by[nm] in ('sat', 'unsat'):
                continue
            if status != 'unknown' and portfolio != 'all':
                break
            rr, dt = fn(text, timeout_ms / 1000.0)
            by[nm] = rr
            if rr in ('sat', 'unsat'):
                st2 = 'discharged' if rr == 'unsat' else 'refuted'
                if status == 'unknown':
                    status, solver = st2, nm
                elif status != st2:
                    status = 'disagree'
    return dict(status=status, solver=solver, seconds=time.time() - t0, model=payload, by=by)


def hyps_consistent(ob, timeout_ms=1500):
    """vacuity probe: 'unsat' only when the sequence-free over-approximation of the hypotheses is already contradictory,
    or the isolated full check says so"""
    if abstract_check(list(ob.hyps), timeout_ms) == 'unsat':
        return 'unsat'
    r, _ = isolated_check(list(ob.hyps), timeout_ms / 1000.0)
    return r
