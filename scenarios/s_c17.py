"""Scenario functions (harnesses) for C17: small client programs over the REAL public API, executed symbolically by pyvc with the
repository code inlined / used through its contracts.  They state the property at the level the user sees it, independently of how the
library implements the context manager (generator function, class, ContextDecorator ...)."""
from dliswriter import DLISFile, AttrSetup, high_compatibility_mode, high_compatibility_mode_decorator   # noqa: F401
from dliswriter.configuration import global_config                                                       # noqa: F401
from dliswriter.logical_record.eflr_types.zone import ZoneSet, ZoneItem                                  # noqa: F401


def scenario_mode_with_block(body_raises):
    before = global_config.high_compat_mode
    inside = None
    try:
        with high_compatibility_mode():
            inside = global_config.high_compat_mode
            if body_raises:
                raise RuntimeError()
    except RuntimeError:
        pass
    return before, inside, global_config.high_compat_mode


def scenario_mode_nested_with_blocks(inner_raises):
    before = global_config.high_compat_mode
    seen = []
    with high_compatibility_mode():
        try:
            with high_compatibility_mode():
                seen.append(global_config.high_compat_mode)
                if inner_raises:
                    raise RuntimeError()
        except RuntimeError:
            pass
        seen.append(global_config.high_compat_mode)
    return before, seen, global_config.high_compat_mode


def scenario_mode_nested_decorated_calls(inner_raises):
    before = global_config.high_compat_mode
    seen = []

    @high_compatibility_mode_decorator
    def inner():
        seen.append(global_config.high_compat_mode)
        if inner_raises:
            raise RuntimeError()

    @high_compatibility_mode_decorator
    def outer():
        try:
            inner()
        except RuntimeError:
            pass
        seen.append(global_config.high_compat_mode)

    outer()
    return before, seen, global_config.high_compat_mode
