"""Attribute access, calls (builtins, inlining, modular calls through contracts), type-spec instantiation."""
import ast
import z3
from .values import *
from .engine import HObj, HList, HDict, key_of, Frame
from . import builtins_ as B
from .exprs import _conc_int


def has_yield(fn):
    for n in ast.walk(fn):
        if isinstance(n, (ast.Yield, ast.YieldFrom)):
            return True
    return False


class CallMixin:
    in_spec = False

    # ================================================================ attributes
    def ev_Attribute(self, e):
        base = self.ev(e.value)
        return self.getattr_value(base, e.attr, e)

    def getattr_value(self, base, name, node=None, default=None):
        k = base.k
        if k in ('real', 'earr'):
            return self.np_attr(base, name, node)
        if k == 'obj' and '__store__' in self.st.heap[base.t].f and name in ('items', 'values', 'keys', 'get'):
            # an instance of a dict subclass (collections.defaultdict): dictionary methods act on its store
            return SV('func', FuncVal(builtin='meth:' + name, bound=self.st.heap[base.t].f['__store__'], name=name))
        if k == 'obj':
            h = self.st.heap[base.t]
            if name in h.f:
                return h.f[name]
            if name == '__class__':
                return SV('cls', h.cls)
            if name == '__dict__':
                return SV('dict', self.st.alloc(HDict({('c', n): v for n, v in h.f.items()})))
            mem = self.src.find_member(h.cls, name)
            if mem is not None:
                return self.class_member(mem, h.cls, name, base, node)
            if default is not None:
                return NONE if default.k == 'none' else default
            if getattr(h, 'symbolic_model', False) and not name.startswith('__'):
                # an object given by a (partial) model may carry state the model does not mention: unknown value
                v = SV('opq', self.sym('unknown_field_' + name, OPQ), 'unknown')
                h.f[name] = v
                eh = getattr(self.st, 'entry_heap', None)
                if eh is not None and base.t in eh:
                    eh[base.t].f.setdefault(name, v)      # the value the field had at entry (frame check)
                return v
            raise PyRaise('AttributeError', name)
        if k == 'cls':
            return self.cls_attr(base.t, name, node, default)
        if k == 'enum':
            cls, member = base.t
            ent = self.enum_tables()[cls][member]
            if name in ('value', '_value_'):
                return VC(ent['value'])
            if name == 'name':
                return VC(member)
            if name == 'converter':
                return SV('const', ('struct', ent.get('fmt'))) if ent.get('fmt') else NONE
            mem = self.src.find_member(cls, name)
            if mem is not None:
                return self.class_member(mem, cls, name, base, node)
            raise PyRaise('AttributeError', name)
        if k == 'enumv':
            cls, t = base.t
            if name in ('value', '_value_'):
                return VI(t)
            return self.getattr_value(self.concrete_member(base), name, node, default)
        if k == 'const' and isinstance(base.t, B.ModuleRef):
            return self.module_attr(base.t, name)
        if k == 'const' and isinstance(base.t, tuple) and base.t and base.t[0] == 'iinfo' and name == 'max':
            return VC({'np.uint32': 4294967295, 'np.int32': 2147483647, 'np.uint16': 65535, 'np.uint8': 255}[base.t[1]])
        if k in ('const', 'str', 'bytes', 'list', 'dict', 'tuple', 'int', 'bool', 'seq'):
            return SV('func', FuncVal(builtin='meth:' + name, bound=base, name=name))
        if k == 'opq':
            return self.opq_attr(base, name, node)
        if k == 'none':
            if default is not None:
                return default
            raise PyRaise('AttributeError', name)
        if k == 'func':
            if name == '__name__':
                return VC(base.t.name)
            if getattr(base.t, 'builtin', None) in ('str', 'bytes', 'bytearray', 'list', 'dict', 'int') and not name.startswith('__'):
                # an unbound method of a builtin type (str.ljust, bytes.join ...): called with the receiver as first argument
                return SV('func', FuncVal(builtin='unbound:' + name, name=f'{base.t.builtin}.{name}'))
        if k == 'ref':
            return self.ref_attr(base, name, node)
        if k == 'super':
            cur_cls, recv = base.t
            rcls = self.st.heap[recv.t].cls if recv.k == 'obj' else recv.t
            mem = self.src.find_member(rcls, name, after=cur_cls)
            if mem is None:
                if name in ('__init__', '__setattr__', '__init_subclass__'):
                    return SV('func', FuncVal(builtin='object.' + name, bound=recv, name=name))
                raise PyRaise('AttributeError', name)
            return self.class_member(mem, rcls, name, recv, node)
        raise Unsupported(f'attribute {name} of {base}')

    def concrete_member(self, v):
        """case split a symbolic enum member into its concrete members (finite-domain concretisation)"""
        cls, t = v.t
        val = self.concretise(t, None, limit=64)
        for n, e in self.enum_tables()[cls].items():
            if e['value'] == val:
                return SV('enum', (cls, n))
        raise PathEnd('no such member')

    def ref_attr(self, base, name, node):
        rm = (self.cur_contract or {}).get('ref_methods', {}).get(name)
        if rm is not None:
            return SV('func', FuncVal(builtin='refmethod:' + rm, bound=base, name=name))
        spec = (self.cur_contract or {}).get('ref_fields', {}).get(name)
        if spec is None:
            raise Unsupported(f'field {name} of a symbolic object reference (declare ref_fields)')
        sort = {'int': INT, 'str': SEQ, 'bytes': SEQ, 'bool': BOOL}[spec.rstrip('?')]
        arr = self.st.ghost.get(('heapf', name))
        if arr is None:
            arr = z3.Const(f'heap_{name}', z3.ArraySort(INT, sort))
            self.st.ghost[('heapf', name)] = arr
        t = z3.Select(arr, base.t)
        if spec.endswith('?'):
            isn = z3.Select(self._none_arr(name), base.t)
            if self.branch(isn):
                return NONE
        return SV(spec.rstrip('?'), t)

    def _none_arr(self, name):
        arr = self.st.ghost.get(('heapn', name))
        if arr is None:
            arr = z3.Const(f'heapnone_{name}', z3.ArraySort(INT, BOOL))
            self.st.ghost[('heapn', name)] = arr
        return arr

    def opq_attr(self, base, name, node):
        """attribute of an opaque (external library) value, as declared in OPQ_MODELS[tag]:
           'int' | 'bool' | 'str' | 'opq[:tag]'  -> uninterpreted function of the receiver
           'method:<result spec>'                -> uninterpreted function of receiver and arguments (pure, X-NP)
           'method!:<result spec>'               -> same, but the call is classified as MUTATING the receiver (C19 obligations)"""
        tag = base.x or 'any'
        if tag == 'unknown':
            # state the object model does not mention (a field added by a change): its attributes and the results of its methods are
            # unknown values as well; nothing is known about what its methods do to the object itself
            return SV('opq', self.ufunc('unknown_attr_' + name, OPQ, OPQ)(base.t), 'unknown')
        spec = self.opq_models().get(tag, {}).get(name)
        if spec is None:
            raise Unsupported(f'attribute {name} of opaque {tag}')
        if spec == 'method':
            return SV('func', FuncVal(builtin=f'opq:{tag}.{name}', bound=base, name=name))
        if spec.startswith('method'):
            return SV('func', FuncVal(builtin=f'opqm:{tag}.{name}', bound=base, name=name))
        return self.opq_result(f'{tag}_{name}', [base.t], spec)

    def opq_result(self, fname, args, spec):
        kind, _, rtag = spec.partition(':')
        if kind == 'consttuple':
            return VC(tuple(rtag.split(',')))
        sort = {'int': INT, 'bool': BOOL, 'opq': OPQ, 'str': SEQ, 'bytes': SEQ}[kind]
        f = self.ufunc(fname, *[a.sort() for a in args], sort)
        t = f(*args)
        if kind == 'int':
            if rtag == 'nat':
                self.assume(t >= 0)
            return VI(t)
        if kind == 'bool':
            return VB(t)
        if kind in ('str', 'bytes'):
            return SV(kind, t)
        return SV('opq', t, rtag or None)

    def opq_call(self, recv, name, args, kw, node):
        tag = recv.x or 'any'
        spec = self.opq_models().get(tag, {}).get(name)
        if spec is None:
            raise Unsupported(f'operation {name} on opaque {tag} (not in its model)')
        head, _, res = spec.partition(':')
        argt = [recv.t]
        for a in list(args) + [kw[k] for k in sorted(kw)]:
            argt.append(self.opq_arg(a))
        if head == 'method!':
            self.on_mutating_call(recv, name, args, kw, node)
        fname = f'{tag}_{name}' + ''.join('_' + k for k in sorted(kw))
        return self.opq_result(fname, argt, res)

    def opq_arg(self, a):
        if a.k == 'slice':
            lo, hi = a.t
            f = self.ufunc('mk_slice', INT, INT, OPQ)
            return f(self.as_int(lo) if lo.k != 'none' else z3.IntVal(-1000000007), self.as_int(hi) if hi.k != 'none' else z3.IntVal(-1000000007))
        if a.k in ('int', 'bool'):
            return self.as_int(a)
        if a.k in ('str', 'bytes') or self._cseq(a):
            return self.as_seq(a)
        return self.as_opq(a)

    def on_mutating_call(self, recv, name, args, kw, node):
        self.oblige(f'no-mutation-of-caller-data[{name}]', z3.BoolVal(False), node, info=f'in-place operation {name} on a value that may alias caller data')

    def opq_models(self):
        return getattr(self, 'opq_model_table', {})

    def module_attr(self, mod, name):
        if mod.name in ('eflr_types', 'enums') and name in self.src.classes:
            return SV('cls', name)
        return SV('const', B.ModuleRef(mod.name + '.' + name))

    def class_member(self, mem, cls, name, recv, node):
        kind, ent, owner = mem
        if kind == 'const':
            ci = self.src.classes[owner]
            gk = ('clsconst', owner, name)
            if gk not in self.st.ghost:
                fr_ = Frame({}, cls=owner, module=ci.module)
                fr_.class_body = True
                self.st.frames.append(fr_)
                try:
                    self.st.ghost[gk] = self.ev(ent)
                finally:
                    self.st.frames.pop()
            return self.st.ghost[gk]
        # method table entry
        if 'get' in ent:
            if recv.k == 'cls':
                raise Unsupported(f'property {name} read on a class')
            fv = FuncVal(node=ent['get'], bound=recv, owner=owner, name=name, module=self.src.classes[owner].module)
            if ent.get('cached'):
                h = self.st.heap[recv.t]
                ck = '__cached_' + name
                if ck in h.f:
                    return h.f[ck]
                if getattr(h, 'symbolic_model', False) and self.cache_may_be_stale(name, ent['get'], owner):
                    # an object given by a model has a history: the property may have been read in an EARLIER state of the object, and
                    # functools.cached_property is never invalidated by assignments to the fields it was computed from
                    if self.branch(self.sym('cache_filled_' + name, BOOL)):
                        try:
                            shape = self.call_value(SV('func', fv), [], {}, node)      # for the shape of the value only
                        except PyRaise:
                            raise PathEnd()
                        v = self.havoc_like(shape, 'stale_' + name)
                        h.f[ck] = v
                        eh = getattr(self.st, 'entry_heap', None)
                        if eh is not None and recv.t in eh:
                            eh[recv.t].f.setdefault(ck, v)
                        return v
                v = self.call_value(SV('func', fv), [], {}, node)
                h.f[ck] = v
                return v
            return self.call_value(SV('func', fv), [], {}, node)
        fn = ent.get('plain')
        if fn is None:
            raise Unsupported(f'member {name}')
        ci = self.src.classes[owner]
        if ent.get('static'):
            return SV('func', FuncVal(node=fn, owner=owner, name=name, module=ci.module))
        if ent.get('classmethod'):
            c = SV('cls', cls)
            return SV('func', FuncVal(node=fn, bound=c, owner=owner, name=name, module=ci.module))
        if recv.k == 'cls':
            return SV('func', FuncVal(node=fn, owner=owner, name=name, module=ci.module))   # unbound
        return SV('func', FuncVal(node=fn, bound=recv, owner=owner, name=name, module=ci.module))

    def cache_may_be_stale(self, name, getter, owner):
        from . import registry
        if name in registry.load().cache_ok:
            self.exempt_cache_guard(name, getter)
            return False
        # instance state = names assigned through `self.<name> = ...` somewhere in the code; a getter that reads only class-level
        # constants and methods (also through self) is always consistent with its cache
        assigned = getattr(self.src, '_self_assigned', None)
        if assigned is None:
            assigned = set()
            for ci in self.src.classes.values():
                for m in ci.methods.values():
                    for fn_ in m.values():
                        if isinstance(fn_, ast.AST):
                            for n in ast.walk(fn_):
                                if isinstance(n, ast.Attribute) and isinstance(n.ctx, (ast.Store, ast.Del)) and isinstance(n.value, ast.Name) and n.value.id == 'self':
                                    assigned.add(n.attr)
            self.src._self_assigned = assigned
        reads_state = False
        for n in ast.walk(getter):
            if isinstance(n, ast.Attribute) and isinstance(n.value, ast.Name) and n.value.id == 'self':
                if n.attr in assigned or self.src.find_member(owner, n.attr) is None:
                    reads_state = True
            elif isinstance(n, ast.Name) and n.id == 'self' and not any(isinstance(p_, ast.Attribute) and p_.value is n for p_ in ast.walk(getter)):
                reads_state = True      # self passed on as a whole
        if not reads_state:
            return False
        # a cache that the code invalidates somewhere needs an invariant the engine does not have: undecided, never an alarm
        for ci in self.src.classes.values():
            for m in ci.methods.values():
                for fn_ in m.values():
                    if not isinstance(fn_, ast.AST):
                        continue
                    for n in ast.walk(fn_):
                        if isinstance(n, ast.Delete) and any(isinstance(t, ast.Attribute) and t.attr == name for t in n.targets):
                            raise Unsupported(f'cached_property {name} is invalidated in the code: needs a consistency invariant')
                        if isinstance(n, ast.Constant) and n.value == name and not isinstance(fn_, ast.Constant):
                            raise Unsupported(f"cached_property {name}: the code refers to it by name ('{name}'), possibly to invalidate it")
        return True

    def exempt_cache_guard(self, name, getter):
        """A cached_property exempted in contracts/a_meta.py:ASSUMED_CONSISTENT_CACHES is taken as consistent because of an ANALYSIS of the
        pinned code: nothing invalidates it, and the value it holds is produced nowhere else (so every reader sees the same - possibly
        stale - value: the open finding).  This guard re-checks the two syntactic facts the analysis rests on, on the tree under
        verification; when they no longer hold (a change invalidates the cache at one place, or computes the value afresh beside it),
        the exemption is void and every function reading the cache is UNDECIDED - never green, never an alarm."""
        cache = self.src.__dict__.setdefault('_exempt_cache_guard', {})
        if name not in cache:
            problems = []
            producers = {n.func.id for n in ast.walk(getter) if isinstance(n, ast.Call) and isinstance(n.func, ast.Name)}
            for path, tree in self.src.trees.items():
                for n in ast.walk(tree):
                    if isinstance(n, ast.Delete) and any(isinstance(t, ast.Attribute) and t.attr == name for t in n.targets):
                        problems.append(f'{path}:{n.lineno} deletes .{name}')
                    elif isinstance(n, ast.Constant) and n.value == name:
                        problems.append(f"{path}:{n.lineno} refers to the cache by name ('{name}')")
                    elif isinstance(n, ast.Call) and isinstance(n.func, ast.Name) and n.func.id in producers and \
                            not (getter.lineno <= n.lineno <= (getter.end_lineno or getter.lineno)):
                        problems.append(f'{path}:{n.lineno} computes the cached value afresh ({n.func.id}(...)) beside the cache')
            cache[name] = problems
        if cache[name]:
            raise Unsupported(f'the analysis behind the exemption of cached_property {name} no longer matches the code: ' + '; '.join(cache[name][:3]))

    def cls_attr(self, cls, name, node=None, default=None):
        if name == '__name__':
            return VC(cls.split('.')[-1])
        tabs = self.enum_tables()
        if cls in tabs:
            if name in tabs[cls]:
                return SV('enum', (cls, name))
            if name == '__members__':
                return SV('dict', self.st.alloc(HDict({('c', n): SV('enum', (cls, n)) for n in tabs[cls]})))
        ci = self.src.classes.get(cls)
        if ci and name in ci.nested:
            return SV('cls', cls + '.' + name if (cls + '.' + name) in self.src.classes else name)
        mem = self.src.find_member(cls, name)
        if mem is not None:
            return self.class_member(mem, cls, name, SV('cls', cls), node)
        # metaclass property
        for c in self.src.mro(cls):
            cci = self.src.classes.get(c)
            if cci and cci.metaclass and cci.metaclass in self.src.classes:
                mm = self.src.find_member(cci.metaclass, name)
                if mm and mm[0] == 'method' and 'get' in mm[1]:
                    fv = FuncVal(node=mm[1]['get'], bound=SV('cls', cls), owner=mm[2], name=name,
                                 module=self.src.classes[mm[2]].module)
                    return self.call_value(SV('func', fv), [], {}, node)
        # class-level mutable attribute kept in ghost state (e.g. LRMeta._lr_type_struct)
        gk = ('clsattr', cls, name)
        if gk in self.st.ghost:
            return self.st.ghost[gk]
        if default is not None:
            return default
        raise PyRaise('AttributeError', f'{cls}.{name}')

    def store_attr(self, target, name, val, node=None, custom=True):
        if target.k == 'obj':
            h = self.st.heap[target.t]
            if custom:
                fn, owner, ent = self.src.find_method(h.cls, '__setattr__')
                if fn is not None:
                    fv = FuncVal(node=fn, bound=target, owner=owner, name='__setattr__', module=self.src.classes[owner].module)
                    self.call_value(SV('func', fv), [VC(name), val], {}, node)
                    return
            fn, owner, ent = self.src.find_method(h.cls, name, kind='set')
            if fn is not None:
                fv = FuncVal(node=fn, bound=target, owner=owner, name=name + '.setter', module=self.src.classes[owner].module)
                self.call_value(SV('func', fv), [val], {}, node)
                return
            g, _, _ = self.src.find_method(h.cls, name, kind='get')
            if g is not None:
                raise PyRaise('AttributeError', f'property {name} has no setter')
            h.f[name] = val
            if target.t in self.st.ghost.get(('escaped',), ()):
                spec = (self.cur_contract or {}).get('ref_fields', {}).get(name)
                if spec is not None:
                    self.sync_ref_field(target, name, val, spec)
            self.note_store(target, name, val, node)
            return
        if target.k == 'cls':
            self.st.ghost[('clsattr', target.t, name)] = val
            return
        if target.k == 'ref':
            spec = (self.cur_contract or {}).get('ref_fields', {}).get(name)
            if spec is None:
                raise Unsupported(f'store to field {name} of symbolic reference')
            sort = {'int': INT, 'str': SEQ, 'bytes': SEQ, 'bool': BOOL}[spec.rstrip('?')]
            arr = self.st.ghost.get(('heapf', name))
            if arr is None:
                arr = z3.Const(f'heap_{name}', z3.ArraySort(INT, sort))
            if spec.endswith('?'):
                na = self._none_arr(name)
                self.st.ghost[('heapn', name)] = z3.Store(na, target.t, z3.BoolVal(val.k == 'none'))
            if val.k != 'none':
                tv = val.t if val.k in ('bytes', 'str') else (self.as_int(val) if sort == INT else val.t)
                arr = z3.Store(arr, target.t, tv)
            self.st.ghost[('heapf', name)] = arr
            return
        raise Unsupported(f'attribute store on {target}')

    def note_store(self, target, name, val, node):
        pass

    # ================================================================ calls
    def ev_Call(self, e):
        f = e.func
        # ---- special forms that must see syntax
        if isinstance(f, ast.Name):
            if f.id == 'old' and self.in_spec:
                return self.eval_old(e.args[0])
            if f.id == 'at_entry' and self.in_spec:
                # value of a local at the entry of the innermost contracted loop (before the havoc)
                snap = self.st.ghost.get(('loop_entry',))
                if snap is None:
                    raise Unsupported('at_entry outside a loop invariant')
                saved = self.frame.env
                self.frame.env = snap
                try:
                    return self.ev(e.args[0])
                finally:
                    self.frame.env = saved
            if f.id == 'super':
                return self.make_super()
            if f.id == 'isinstance':
                v = self.ev(e.args[0])
                return VB(self.isinstance_check(v, e.args[1]))
            if f.id == 'implies' and self.in_spec:
                a = self.truth(self.ev(e.args[0]))
                az = z3.simplify(a)
                if z3.is_false(az):
                    return VB(True)
                b = self.spec_guarded(az, e.args[1])
                return VB(z3.Implies(a, b))
            if f.id == 'hasattr':
                v = self.ev(e.args[0])
                n = self.ev(e.args[1])
                try:
                    self.getattr_value(v, n.t)
                    return VB(True)
                except PyRaise:
                    return VB(False)
        if isinstance(f, ast.Attribute) and isinstance(f.value, ast.Name) and f.value.id in ('logger', 'logging'):
            return NONE     # D2: logging dropped
        fv = self.ev(f)
        args = []
        for a in e.args:
            if isinstance(a, ast.Starred):
                args.extend(self.iter_concrete(self.ev(a.value)))
            else:
                args.append(self.ev(a))
        kw = {}
        for k in e.keywords:
            if k.arg is None:
                d = self.ev(k.value)
                for kk, vv in self.st.heap[d.t].d.items():
                    kw[kk[1]] = vv
            else:
                kw[k.arg] = self.ev(k.value)
        return self.call_value(fv, args, kw, e)

    def spec_guarded(self, guard, node):
        """evaluate a spec sub-expression under an extra hypothesis (for implies): forks inside see the guard"""
        n = len(self.st.pc)
        self.st.pc.append(guard)
        try:
            b = self.truth(self.ev(node))
        finally:
            extra = self.st.pc[n + 1:]
            del self.st.pc[n:]
            self.st.pc.extend(extra)   # branch decisions taken inside stay on the path
        return b

    def eval_old(self, node):
        st = self.st
        saved_heap, saved_env, saved_ghost = st.heap, self.frame.env, st.ghost
        st.heap = st.old_heap
        self.frame.env = dict(saved_env)
        self.frame.env.update(st.old_env)
        g = dict(st.ghost)
        g.update(st.old_ghost)
        st.ghost = g
        try:
            r = self.ev(node)
            # mutable containers are returned by value (their old contents), not by reference into the current heap
            if r.k == 'list':
                from .engine import HSeqList
                h = st.heap[r.t]
                if isinstance(h, HSeqList):
                    r = SV('seq', h.seq, h.x)
                else:
                    items = list(h.items)
                    st.heap = saved_heap
                    r = SV('list', st.alloc(HList(items)))
            return r
        finally:
            st.heap, self.frame.env, st.ghost = saved_heap, saved_env, saved_ghost

    def make_super(self):
        fr = self.frame
        if fr.cls is None or 'self' not in fr.env and 'cls' not in fr.env:
            raise Unsupported('super() outside a method')
        recv = fr.env.get('self') or fr.env.get('cls')
        return SV('super', (fr.cls, recv))

    def isinstance_check(self, v, tnode):
        t = self.ev(tnode) if not isinstance(tnode, SV) else tnode
        if t.k == 'tuple':
            cs = [self.isinstance_check(v, x) for x in t.t]
            return z3.Or(*cs) if cs else z3.BoolVal(False)
        tn = self.type_name(t)
        return self.isinstance_name(v, tn)

    def type_name(self, t):
        if t.k == 'cls':
            return t.t
        if t.k == 'func' and t.t.builtin:
            return t.t.builtin
        if t.k == 'const' and isinstance(t.t, B.ModuleRef):
            return t.t.name
        if t.k == 'none':
            return 'NoneType'
        raise Unsupported(f'type expression {t}')

    def isinstance_name(self, v, tn):
        k = v.k
        py = {'int': ('int', 'bool'), 'bool': ('bool',), 'str': ('str',), 'bytes': ('bytes',), 'bytearray': ('bytearray',),
              'float': ('float',), 'list': ('list',), 'tuple': ('tuple',), 'dict': ('dict',), 'NoneType': ('none',), 'type': ('cls',),
              'Number': ('int', 'bool', 'float'), 'numbers.Number': ('int', 'bool', 'float')}
        if k == 'obj':
            c = self.st.heap[v.t].cls
            if tn in self.src.classes:
                return z3.BoolVal(self.src.is_subclass(c, tn))
            return z3.BoolVal(False)
        if k == 'opq' and v.x == 'unknown':
            if tn in self.src.classes:
                return z3.BoolVal(False)       # state the model does not mention is plain data, not one of the library's objects
            return self.ufunc('isinstance_' + tn.replace('.', '_'), OPQ, BOOL)(v.t)
        if k == 'opq':
            tag = v.x or 'any'
            decl = self.opq_models().get(tag, {}).get('__isinstance__')
            if decl is not None:
                if tn in decl:
                    if decl[tn] is None:        # not determined by the kind: e.g. a row slot is a numpy scalar or an ndarray
                        return self.ufunc('isinstance_' + tn.replace('.', '_'), OPQ, BOOL)(v.t)
                    return z3.BoolVal(decl[tn])
                return z3.BoolVal(False)
            raise Unsupported(f'isinstance of opaque {tag} against {tn}')
        if k == 'ref':
            if tn in ('list', 'tuple', 'dict', 'NoneType'):
                return z3.BoolVal(False)       # elements of a flat value list are scalars (declared element kind)
            raise Unsupported(f'isinstance of a symbolic element against {tn}')
        if k == 'enumv':
            cls = v.t[0]
            return z3.BoolVal(tn == cls or (tn in self.src.classes and self.src.is_subclass(cls, tn)) or tn == 'int')
        if k == 'enum':
            cls = v.t[0]
            if tn == cls or (tn in self.src.classes and self.src.is_subclass(cls, tn)):
                return z3.BoolVal(True)
            ci = self.src.classes[cls]
            bases = ' '.join(self.src.classes[c].bases if c in self.src.classes else '' for c in self.src.mro(cls) for _ in [0])
            bases = ' '.join(' '.join(self.src.classes[c].bases) for c in self.src.mro(cls) if c in self.src.classes)
            if tn == 'int':
                return z3.BoolVal('int' in bases.split() or 'IntEnum' in bases)
            if tn == 'str':
                return z3.BoolVal('str' in bases.split() or 'ValidatorEnum' in bases)
            return z3.BoolVal(False)
        if tn == 'type' and k == 'func' and getattr(v.t, 'builtin', None) in ('int', 'str', 'float', 'bool', 'bytes', 'bytearray', 'list', 'dict', 'tuple',
                                                                              'NoneType', 'datetime', 'type'):
            return z3.BoolVal(True)         # the builtin types are instances of `type`
        kinds = {'int': 'int', 'bool': 'bool', 'none': 'none', 'bytes': 'bytes', 'str': 'str', 'list': 'list', 'tuple': 'tuple', 'seq': 'list',
                 'dict': 'dict', 'cls': 'cls', 'func': 'func'}
        vk = kinds.get(k)
        if k == 'const':
            t = v.t
            vk = 'str' if isinstance(t, str) else 'bytes' if isinstance(t, bytes) else 'bytearray' if isinstance(t, bytearray) \
                else 'float' if isinstance(t, float) else 'tuple' if isinstance(t, tuple) else None
            if vk is None:
                raise Unsupported(f'isinstance of const {type(t)}')
        if k == 'bytes' and v.x == 'bytearray':
            vk = 'bytearray'
        if tn in py:
            return z3.BoolVal(vk in py[tn])
        if tn in self.src.classes or '.' in tn or tn in ('datetime', 'np.ndarray', 'np.generic', 'np.dtype'):
            return z3.BoolVal(False)
        raise Unsupported(f'isinstance against {tn}')

    def call_value(self, fv, args, kw, node=None):
        if fv.k == 'func':
            f = fv.t
            if f.builtin:
                return self.call_builtin(f, args, kw, node)
            return self.call_function(f, args, kw, node)
        if fv.k == 'cls':
            return self.instantiate(fv.t, args, kw, node)
        if fv.k == 'super':
            raise Unsupported('calling super object')
        if fv.k == 'const' and isinstance(fv.t, B.ModuleRef):
            return self.call_external(fv.t.name, args, kw, node)
        if fv.k == 'opq' and fv.x == 'unknown':
            return SV('opq', self.sym('unknown_result', OPQ), 'unknown')
        if fv.k == 'obj':
            return self.call_method(fv, '__call__', args, kw, node)
        raise Unsupported(f'call of {fv}')

    def call_method(self, recv, name, args, kw, node=None):
        m = self.getattr_value(recv, name, node)
        return self.call_value(m, args, kw, node)

    def call_external(self, name, args, kw, node):
        h = getattr(self, 'externals', {}).get(name)
        if h is None:
            raise Unsupported(f'external call {name}')
        return h(self, args, kw, node)

    def contract_key(self, f):
        if f.owner:
            return f'{f.owner}.{f.name}'
        return f.name

    def bind(self, fn, args, kw, f=None):
        a = fn.args
        params = [p.arg for p in a.posonlyargs + a.args]
        env = {}
        args = list(args)
        if len(args) > len(params) and not a.vararg:
            raise PyRaise('TypeError', 'too many positional arguments')
        for i, p in enumerate(params):
            if i < len(args):
                env[p] = args[i]
        if a.vararg:
            env[a.vararg.arg] = SV('tuple', tuple(args[len(params):]))
        kw = dict(kw)
        for p in params[len(args):] if len(args) < len(params) else []:
            if p in kw:
                env[p] = kw.pop(p)
        for p in [x.arg for x in a.kwonlyargs]:
            if p in kw:
                env[p] = kw.pop(p)
        for p in params:
            if p in kw:
                raise PyRaise('TypeError', f'multiple values for {p}')
        # defaults
        defaults = a.defaults
        for i, p in enumerate(params):
            if p not in env:
                di = i - (len(params) - len(defaults))
                if di < 0:
                    raise PyRaise('TypeError', f'missing argument {p}')
                env[p] = self.ev_default(defaults[di], f)
        for p, d in zip(a.kwonlyargs, a.kw_defaults):
            if p.arg not in env:
                if d is None:
                    raise PyRaise('TypeError', f'missing keyword argument {p.arg}')
                env[p.arg] = self.ev_default(d, f)
        if a.kwarg:
            env[a.kwarg.arg] = SV('dict', self.st.alloc(HDict({('c', k): v for k, v in kw.items()})))
        elif kw:
            raise PyRaise('TypeError', f'unexpected keyword argument {list(kw)[0]}')
        return env

    def ev_default(self, node, f):
        self.st.frames.append(Frame({}, cls=f.owner if f else None, module=f.module if f else None))
        try:
            return self.ev(node)
        finally:
            self.st.frames.pop()

    def call_function(self, f, args, kw, node=None):
        fn = f.node
        stubs = (self.cur_contract or {}).get('stubs', {})
        if f.name in stubs:
            st = stubs[f.name]
            if st.get('capture'):
                # record how the abstract callee was called (bound to its real signature): ghost  stub_call_<name>
                env_ = self.bind(fn, ([f.bound] if f.bound is not None else []) + list(args), kw, f)
                self.st.ghost['stub_call_' + f.name.strip('_')] = SV('dict', self.st.alloc(HDict({('c', k_): v_ for k_, v_ in env_.items()})))
            ck = ('stubcache', f.name, f.bound.t if (f.bound is not None and f.bound.k in ('obj', 'cls')) else None)
            if st.get('pure') and ck in self.st.ghost:
                return self.st.ghost[ck]       # a pure abstract callee: same receiver state, same result
            if st.get('raises') and self.st.oracle.choose(2) == 1:
                raise PyRaise('StubException', f.name)
            if 'returns_uf' in st:
                # an abstract but FUNCTIONAL callee: result = uf(receiver, arguments) - lets postconditions say which call produced what
                terms = [self.as_opq(f.bound)] if f.bound is not None and f.bound.k in ('obj', 'opq') else []
                for a_ in list(args):
                    terms.append(self.as_opq(a_) if a_.k in ('obj', 'opq', 'none', 'list', 'dict', 'tuple') else self.opq_arg(a_))
                for kwn in st.get('returns_uf_kw', []):
                    # keyword arguments the result depends on: the value passed, else the default of the real signature
                    if kwn in kw:
                        a_ = kw[kwn]
                    else:
                        a_ = NONE
                        if isinstance(fn, (ast.FunctionDef, ast.AsyncFunctionDef)):
                            names_ = [x.arg for x in fn.args.posonlyargs + fn.args.args]
                            defs_ = dict(zip(names_[::-1], fn.args.defaults[::-1]))
                            defs_.update({x.arg: d_ for x, d_ in zip(fn.args.kwonlyargs, fn.args.kw_defaults) if d_ is not None})
                            if kwn in defs_:
                                a_ = self.ev(defs_[kwn])
                    terms.append(self.as_opq(a_))
                uf_ = self.ufunc(st['returns_uf'], *[t_.sort() for t_ in terms], OPQ)
                r = SV('opq', uf_(*terms), st.get('returns_tag'))
            elif 'returns_expr_on_receiver' in st:
                r = self.getattr_value(f.bound, st['returns_expr_on_receiver'])
            elif 'returns_expr' in st:
                r = self.ev_spec(st['returns_expr'], dict(self.st.frames[0].env))
            else:
                r = self.fresh_of(st.get('returns', 'none'), 'stub_' + f.name)
            self.st.ghost['stub_result_' + f.name] = r
            self.st.ghost[ck] = r
            if st.get('assign_first_arg_to') and f.bound is not None and f.bound.k == 'obj' and args:
                # an abstract setter that stores its argument unchanged (identity conversion) in the named field
                self.st.heap[f.bound.t].f[st['assign_first_arg_to']] = args[0]
            for g, e_ in st.get('ghost_set', {}).items():
                self.st.ghost[g] = self.ev_spec(e_, dict(self.st.frames[0].env))
            if st.get('set_receiver_fields') and f.bound is not None and f.bound.k == 'obj':
                # an abstract constructor / setter that stores some of its arguments: field <- expression over the callee's parameters
                env_ = self.bind(fn, [f.bound] + list(args), kw, f)
                for fld, e_ in st['set_receiver_fields'].items():
                    self.st.heap[f.bound.t].f[fld] = self.ev_spec(e_, dict(env_))
            return r
        if isinstance(fn, ast.Lambda):
            env = dict(f.closure or {})
            env.update(self.bind(fn, args, kw, f))
            self.st.frames.append(Frame(env, cls=f.owner, module=f.module))
            try:
                return self.ev(fn.body)
            finally:
                self.st.frames.pop()
        allargs = ([f.bound] if f.bound is not None else []) + list(args)
        key = self.contract_key(f)
        c = self.contracts.get(key)
        cc_ = self.cur_contract or {}
        # scenario contracts may ask for the REAL bodies of all callees (`inline_all`), keeping only the listed summaries (`keep_modular`)
        if c is not None and cc_.get('inline_all') and key not in cc_.get('keep_modular', []):
            c = None
        if c is not None and not c.get('inline') and not c.get('inline_in_callers') and key not in cc_.get('inline_callees', []):
            und = self.undeclared_arguments(fn, c, allargs, kw, f)
            if not und:
                return self.modular_call(key, c, f, allargs, kw, node)
            # the call passes an argument for a parameter the callee's contract does not describe (a parameter added by a change, or a
            # call form the contract was not written for): the contract says nothing about this call - the callee's REAL body is used
            self.st.notes.append(('outside-contract', key, tuple(und)))
            import os as _os
            if _os.environ.get('PYVC_TRACE_OUTSIDE'):
                print(f'OUTSIDE-CONTRACT call of {key}: arguments {und} are not described by its contract; body inlined', flush=True)
        if len(self.st.frames) > 60:
            raise Unsupported(f'inlining depth exceeded at {key} (recursive function needs a contract)')
        env = dict(f.closure or {})
        env.update(self.bind(fn, allargs, kw, f))
        return self.inline(f, env, node)

    def undeclared_arguments(self, fn, c, allargs, kw, f):
        """names of parameters of the real signature that this call passes a value for and the contract `c` does not declare"""
        if not isinstance(fn, (ast.FunctionDef, ast.AsyncFunctionDef)) or c.get('any_arguments'):
            return []
        declared = set(c.get('params', {})) | set(c.get('call_witness', {})) | {'self', 'cls'}
        a = fn.args
        pos = [x.arg for x in a.posonlyargs + a.args]
        passed = pos[:len(allargs)] + [k for k in kw]
        if len(allargs) > len(pos) and a.vararg is not None:
            passed.append(a.vararg.arg)
        known = set(pos) | {x.arg for x in a.kwonlyargs}
        out = []
        for nm in passed:
            if nm in declared:
                continue
            if nm not in known and a.kwarg is not None:
                nm = a.kwarg.arg
                if nm in declared:
                    continue
            if nm not in out:
                out.append(nm)
        return out

    def depth_of(self, key):
        return sum(1 for fr in self.st.frames if fr.fn_key == key)

    def inline(self, f, env, node=None):
        fn = f.node
        gen = has_yield(fn)
        fr = Frame(env, fn_key=self.contract_key(f), cls=f.owner, module=f.module)
        fr.fn_node = fn
        self.st.frames.append(fr)
        if gen:
            fr.yields = []
        try:
            self.exec_block(fn.body)
            r = NONE
        except ReturnSig as rs:
            r = rs.v
        finally:
            self.st.frames.pop()
        if gen:
            return SV('const', B.Items(fr.yields))
        return r

    def instantiate(self, cls, args, kw, node=None):
        tabs = self.enum_tables()
        if cls in tabs:
            return self.enum_lookup(cls, args[0])
        ci = self.src.classes.get(cls)
        if ci is None:
            raise Unsupported(f'instantiate {cls}')
        if any(b in ('Exception', 'ValueError', 'RuntimeError', 'TypeError') for c in self.src.mro(cls) for b in self.src.classes[c].bases if c in self.src.classes):
            return SV('const', ('exception', cls))
        key = f'{cls}.__init__'
        c = self.contracts.get(key)
        oid = self.st.alloc(HObj(cls))
        o = SV('obj', oid)
        init, owner, ent = self.src.find_method(cls, '__init__')
        if init is None:
            return o
        fv = FuncVal(node=init, bound=o, owner=owner, name='__init__', module=self.src.classes[owner].module)
        self.call_function(fv, args, kw, node)
        return o

    def enum_lookup(self, cls, v):
        tab = self.enum_tables()[cls]
        if v.k == 'enum' and v.t[0] == cls:
            return v
        # Enum._missing_ (custom look-up of values that are not members): a class that defines it may return a member for ANY value
        has_missing = any(c_ in self.src.classes and '_missing_' in self.src.classes[c_].methods for c_ in self.src.mro(cls))
        if v.k == 'str' and len(tab) > 8:
            # large string enumerations: membership abstracted by a predicate over the member VALUE table of the real source
            if self.branch(self.ufunc('enum_member_' + cls, SEQ, BOOL)(v.t)):
                return SV('opq', self.ufunc('enum_of_' + cls, SEQ, OPQ)(v.t), 'enummember')
            if has_missing and self.st.oracle.choose(2) == 1:
                return SV('opq', self.sym('member_from_missing_hook', OPQ), 'enummember')
            raise PyRaise('ValueError', 'not an enum value')
        for n, ent in tab.items():
            ev = ent['value']
            if isinstance(ev, int) and self.is_num(v):
                if self.branch(self.as_int(v) == ev):
                    return SV('enum', (cls, n))
            elif isinstance(ev, str) and v.k == 'const' and v.t == ev:
                return SV('enum', (cls, n))
            elif isinstance(ev, str) and v.k == 'str':
                if self.branch(v.t == seq_of_str(ev)):
                    return SV('enum', (cls, n))
        raise PyRaise('ValueError', 'not an enum value')

    # ---------------------------------------------------------------- modular call
    def modular_call(self, key, c, f, allargs, kw, node=None, env=None):
        if env is None:
            env = self.bind(f.node, allargs, kw, f)
        cenv = dict(env)
        n = self.call_ordinal(key)
        tag = f'{key}@{n}'
        self.st.notes.append(('call', key))
        old_heap, old_env, old_ghost = self.st.old_heap, getattr(self.st, 'old_env', {}), getattr(self.st, 'old_ghost', {})
        pre_heap = self.st.snapshot_heap()
        for g, wexpr in c.get('call_witness', {}).items():
            cenv[g] = self.ev_spec(wexpr, cenv)        # witness for a ghost parameter of the callee (existential in its requires)
        for i, (nm, r) in enumerate(self.clauses(c.get('requires', []))):
            self.oblige(f'pre@call[{key}]#{nm}', self.truth(self.ev_spec(r, cenv)), node, info=tag)
        extra = (self.cur_contract or {}).get('call_requires', {}).get(key, [])
        if extra:
            xenv = dict(cenv)
            xenv.update(self.st.frames[0].env)      # the names of the function under verification win (its own self); callee parameter names stay visible
            for nm, r in self.clauses(extra):
                self.oblige(f'call-req[{key}]#{nm}', self.truth(self.ev_spec(r, xenv)), node, info=tag)
        for exc, cond in c.get('raises', {}).items():
            if self.branch(self.truth(self.ev_spec(cond, cenv))):
                raise PyRaise(exc, f'from {key}')
        # havoc frame
        self.st.old_heap, self.st.old_env, self.st.old_ghost = pre_heap, dict(cenv), dict(self.st.ghost)
        try:
            # ghost effects are functions of the state BEFORE the call (evaluating them after the havoc of `modifies` would read the
            # callee's fresh post-state and, together with the assumed postconditions, smuggle in constraints on the pre-state)
            ghost_updates = {g: self.ev_spec(upd, cenv) for g, upd in c.get('ghost_effects', {}).items() if g in self.st.ghost}
            for loc in c.get('modifies', []):
                self.havoc_location(loc, cenv, c)
            self.st.ghost.update(ghost_updates)
            if 'yields' in c:
                return SV('gen', (key, c, dict(cenv)))
            ens = self.clauses(c.get('ensures', []))
            res = None
            defining = [r for nm, r in ens if r.strip().startswith('result == ') and 'result' not in r.strip()[10:]]
            if defining and (c.get('returns') in ('bytes', 'int', 'str', 'bool') or str(c.get('returns')).startswith('seq[')):
                # a postcondition of the form  result == <expression over the arguments>  defines the result: use the term itself
                try:
                    res = self.ev_spec(defining[0].strip()[10:], cenv)
                    if res.k == 'const':
                        res = SV(c['returns'], self.as_seq(res)) if c['returns'] in ('bytes', 'str') else res
                    if res.k == 'list':
                        res = SV('seq', self.list_as_seq(res), c['returns'][4:-1])
                except Unsupported:
                    res = None
            if res is None:
                res = self.fresh_of(c.get('returns', 'none'), key.replace('.', '_'))
                defining = []
            cenv['result'] = res
            import re as _re
            for nm, r in ens:
                if defining and r == defining[0]:
                    continue
                m_ = _re.match(r'^\s*self\.(\w+) is (?!not\b)(?!None\b)([\w\.]+)\s*$', r)
                if m_ and 'self' in cenv and cenv['self'].k == 'obj':
                    # identity postcondition on a field: the callee stored exactly that object
                    self.st.heap[cenv['self'].t].f[m_.group(1)] = self.ev_spec(m_.group(2), cenv)
                    continue
                self.assume(self.truth(self.ev_spec(r, cenv)))
            if c.get('inv_preserved') and 'self' in cenv and cenv['self'].k == 'obj':
                hc = self.st.heap[cenv['self'].t].cls
                for inv in c.get('self_inv', self.models.get(hc, {}).get('inv', [])):
                    self.assume(self.truth(self.ev_spec(inv, {'self': cenv['self']})))
        finally:
            self.st.old_heap, self.st.old_env, self.st.old_ghost = old_heap, old_env, old_ghost
        return res

    def call_ordinal(self, key):
        d = self.st.ghost.setdefault(('callcount',), {})
        d[key] = d.get(key, 0) + 1
        return d[key]

    def clauses(self, lst):
        out = []
        for i, c in enumerate(lst):
            if isinstance(c, tuple):
                out.append((c[0], c[1]))
            else:
                out.append((str(i), c))
        return out

    def havoc_location(self, loc, env, c):
        # 'self.field' / 'param.field' / 'self.a.b'
        base, _, field = loc.rpartition('.')
        o = self.ev_spec(base, env)
        h = self.st.heap[o.t]
        spec = (c.get('self_fields') or {}).get(field) if base == 'self' else None
        if spec is None:
            spec = self.models.get(h.cls, {}).get('fields', {}).get(field)
        if spec is None:
            if field in h.f:
                h.f[field] = self.havoc_like(h.f[field], field)
                return
            raise Unsupported(f'modifies {loc}: no type for field')
        h.f[field] = self.fresh_of(spec, field)

    _spec_cache = {}

    def ev_spec(self, text, env):
        node = CallMixin._spec_cache.get(text)
        if node is None:
            node = ast.parse(text.strip(), mode='eval').body
            CallMixin._spec_cache[text] = node
        saved = self.in_spec
        self.in_spec = True
        self.st.frames.append(Frame(dict(env), cls=None, module='<spec>'))
        try:
            return self.ev(node)
        except PyRaise as r:
            raise Unsupported(f'specification expression raised {r.exc} {r.info}: {text[:100]}')
        finally:
            self.st.frames.pop()
            self.in_spec = saved

    # ---------------------------------------------------------------- type specs
    def fresh_of(self, spec, hint='v'):
        if isinstance(spec, dict) and 'list' in spec:
            return SV('list', self.st.alloc(HList([self.fresh_of(x, f'{hint}_{i}') for i, x in enumerate(spec['list'])])))
        if isinstance(spec, dict):
            return self.fresh_obj(spec.get('cls'), spec, hint)
        spec = spec.strip()
        if spec.endswith('?'):
            if self.st.oracle.choose(2) == 0:
                return NONE
            return self.fresh_of(spec[:-1], hint)
        if spec == 'int':
            return VI(self.sym(hint, INT))
        if spec == 'nat':
            t = self.sym(hint, INT)
            self.assume(t >= 0)
            return VI(t)
        if spec == 'bool':
            return VB(self.sym(hint, BOOL))
        if spec in ('bytes', 'bytearray'):
            return SV('bytes', self.sym(hint, SEQ), 'bytearray' if spec == 'bytearray' else None)
        if spec == 'str':
            return VS(self.sym(hint, SEQ))
        if spec == 'none':
            return NONE
        if spec.startswith('opq'):
            return SV('opq', self.sym(hint, OPQ), spec.split(':')[1] if ':' in spec else None)
        if spec.startswith('tuple['):
            parts = split_top(spec[6:-1])
            return SV('tuple', tuple(self.fresh_of(p, f'{hint}_{i}') for i, p in enumerate(parts)))
        if spec.startswith('clsdict{'):
            d = {}
            for part in split_top(spec[8:-1]):
                k, _, vs = part.partition(':')
                d[('cls', k.strip())] = self.fresh_of(vs.strip(), f'{hint}_{k.strip()}')
            h = HDict(d)
            h.default = SV('func', FuncVal(builtin='dict', name='dict'))
            return SV('dict', self.st.alloc(h))
        if spec.startswith('namedict{'):
            d = {}
            for part in split_top(spec[9:-1]):
                k, _, vs = part.partition(':')
                kk = ('n',) if k.strip() == 'None' else ('c', k.strip())
                d[kk] = self.fresh_of(vs.strip(), f'{hint}_{k.strip()}')
            return SV('dict', self.st.alloc(HDict(d)))
        if spec.startswith('dict{'):
            d = {}
            for part in split_top(spec[5:-1]):
                k, _, vs = part.partition(':')
                d[('c', k.strip())] = self.fresh_of(vs.strip(), f'{hint}_{k.strip()}')
            return SV('dict', self.st.alloc(HDict(d)))
        if spec.startswith('items['):
            parts = split_top(spec[6:-1])
            return SV('list', self.st.alloc(HList([self.fresh_of(p_, f'{hint}_{i}') for i, p_ in enumerate(parts)])))
        if spec.startswith('list['):
            inner, _, cnt = spec[5:].rpartition(']')
            if cnt.startswith('*'):
                n = int(cnt[1:])
                return SV('list', self.st.alloc(HList([self.fresh_of(inner, f'{hint}_{i}') for i in range(n)])))
            raise Unsupported(f'symbolic-length list spec {spec} (use seq[...])')
        if spec.startswith('seqlist['):
            from .engine import HSeqList
            return SV('list', self.st.alloc(HSeqList(self.sym(hint, SEQ), spec[8:-1])))
        if spec.startswith('seq['):
            inner = spec[4:-1]
            return SV('seq', self.sym(hint, SEQ), inner)
        if spec.startswith('obj:'):
            return self.fresh_obj(spec[4:], None, hint)
        if spec.startswith('enum:'):
            cls = spec[5:]
            members = list(self.enum_tables()[cls])
            return SV('enum', (cls, members[self.st.oracle.choose(len(members))]))
        if spec.startswith('enumv:'):
            cls = spec[6:]
            t = self.sym(hint, INT)
            vals = [e['value'] for e in self.enum_tables()[cls].values()]
            self.assume(z3.Or(*[t == v for v in vals]))
            return SV('enumv', (cls, t))
        if spec.startswith('member:'):
            cls, m = spec[7:].split('.')
            return SV('enum', (cls, m))
        if spec.startswith('cls:'):
            return SV('cls', spec[4:])
        if spec.startswith('const:'):
            return VC(ast.literal_eval(spec[6:]))
        if spec.startswith('ref'):
            return SV('ref', self.sym(hint, INT))
        if spec == 'stubfn':
            return SV('func', FuncVal(builtin='stubfn', name=hint))
        if spec == 'stubfn1':
            return SV('func', FuncVal(builtin='stubfn1', name=hint))
        if spec.startswith('oneof['):
            parts = split_top(spec[6:-1])
            return self.fresh_of(parts[self.st.oracle.choose(len(parts))], hint)
        raise Unsupported(f'type spec {spec}')

    def fresh_obj(self, cls, spec, hint):
        model = spec if spec and 'fields' in spec else self.models.get(cls)
        if model is None:
            raise Unsupported(f'no object model for {cls}')
        oid = self.st.alloc(HObj(model.get('cls', cls)))
        o = SV('obj', oid)
        h = self.st.heap[oid]
        h.symbolic_model = True
        for fld, fs in model.get('fields', {}).items():
            h.f[fld] = self.fresh_of(fs, f'{hint}_{fld}')
        for inv in model.get('inv', []):
            self.assume(self.truth(self.ev_spec(inv, {'self': o})))
        return o


def split_top(s):
    out, depth, cur = [], 0, ''
    for ch in s:
        if ch in '[({':
            depth += 1
        if ch in '])}':
            depth -= 1
        if ch == ',' and depth == 0:
            out.append(cur.strip())
            cur = ''
        else:
            cur += ch
    if cur.strip():
        out.append(cur.strip())
    return out
