#!/bin/sh
# tools/mutant.sh <patch.diff> <Cxx> [more props...]  : run checks against a scratch copy of /repo with the patch applied
set -e
PATCH=$(readlink -f "$1"); shift
SCR=$(mktemp -d "${VERIF_SCRATCH:-/var/tmp}/mut.XXXXXX")
trap 'rm -rf "$SCR"' EXIT
mkdir -p "$SCR/repo"
rsync -a --exclude .git --exclude 'src/tests' /repo/ "$SCR/repo/"
(cd "$SCR/repo" && patch -p1 -s < "$PATCH")
cd "$(dirname "$0")/.."
for P in "$@"; do
  PYVC_SRC="$SCR/repo/src/dliswriter" python3-vt -m pyvc.cli "$P" --tier quick || echo "exit=$?"
done
