"""Regression witness (C06 / C12 / C05): a fractional status given as a numpy float that is not a python float (np.float32(0.5)) was
truncated to 0 and written as STATUS 0; only python floats (and np.float64, a subclass) were checked for a fraction.
Exit 1 while it reproduces."""
import sys
import numpy as np
from dliswriter.logical_record.core.attribute.subtypes import StatusAttribute
bad = []
for v in (np.float32(0.5), np.float16(1.5), np.float32(0.25)):
    try:
        r = StatusAttribute.convert_status(v)
        bad.append((repr(v), r))
    except ValueError:
        pass
for v, want in ((np.float32(1.0), 1), (np.float32(0.0), 0), (np.int64(1), 1), (1.0, 1), (True, 1)):
    if StatusAttribute.convert_status(v) != want:
        bad.append((repr(v), 'wrong value'))
print('fractional statuses accepted:', bad)
sys.exit(1 if bad else 0)
