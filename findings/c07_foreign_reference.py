"""Witness for the open finding P17 (C07): a reference attribute accepts an object created in ANOTHER DLISFile; the written reference
resolves to no object of the file.  Exit 1 while such a reference is accepted."""
import sys
from dliswriter import DLISFile
other = DLISFile(); olf = other.add_logical_file(); olf.add_origin('OO', file_set_number=1); z_other = olf.add_zone('Z-OTHER')
df = DLISFile(); lf = df.add_logical_file(); lf.add_origin('O', file_set_number=1)
try:
    p = lf.add_parameter('P', zones=[z_other], values=[1.0])
except Exception as e:
    print('rejected:', type(e).__name__); sys.exit(0)
own = [z for z in lf._eflr_sets.get_all_items_for_set_type(type(z_other.parent))]
print('accepted; zones defined in this logical file:', [z.name for z in own])
sys.exit(1 if z_other not in own else 0)
