"""Contracts: L-ORD record order per logical file (C09), set registries (C09/C18), DLISFile.write wiring (C01)."""
SETREG = {'cls': 'EFLRSetsDict', 'fields': {}}


def reg(order):
    """registry of a logical file: {set class: {set name: set}} in the given insertion order"""
    return {'cls': 'EFLRSetsDict', 'fields': {'__store__': 'clsdict{' + ','.join(f'{c}:namedict{{{names}}}' for c, names in order) + '}'}}


S = 'opq:eflrset'
SHAPES = {
    'origin-first': [('OriginSet', f'None:{S}'), ('ChannelSet', f'None:{S}'), ('FrameSet', f'None:{S}')],
    'origin-last-two-origin-sets': [('AxisSet', f'None:{S}'), ('ChannelSet', f'None:{S},CH2:{S}'), ('FrameSet', f'None:{S}'), ('NoFormatSet', f'None:{S}'),
                                    ('OriginSet', f'None:{S},EXTRA:{S}')],
    # WELL-REFERENCE shares the logical record type OLR with ORIGIN but is not an origin set: it must come AFTER the origin sets
    'well-reference-registered-before-the-origin': [('WellReferencePointSet', f'None:{S}'), ('ChannelSet', f'None:{S}'), ('OriginSet', f'None:{S}'), ('FrameSet', f'None:{S}')],
    'origin-in-the-middle': [('FileHeaderSet', f'None:{S}'), ('ZoneSet', f'Z:{S}'), ('OriginSet', f'None:{S}'), ('ChannelSet', f'None:{S}'), ('FrameSet', f'None:{S}')],
}


def expected(shape, lf):
    order = SHAPES[shape]
    def sets_of(c, names):
        return [f"{lf}._eflr_sets[{c}][{('None' if n.split(':')[0] == 'None' else repr(n.split(':')[0]))}]" for n in names.split(',')]
    origin = [e for c, names in order if c == 'OriginSet' for e in sets_of(c, names)]
    others = [e for c, names in order if c not in ('OriginSet', 'FileHeaderSet') for e in sets_of(c, names)]
    return [f'{lf}.file_header_item._parent'] + origin + others + [f'{lf}._no_format_frame_data[0]', f'{lf}._no_format_frame_data[1]']


CONTRACTS = {}
for _shape, _order in SHAPES.items():
    _lf = {'cls': 'LogicalFile', 'fields': {'_eflr_sets': reg(_order), 'file_header_item': {'cls': 'FileHeaderItem', 'fields': {'_parent': S}},
                                             '_no_format_frame_data': 'list[opq:nfdata]*2'}}
    _exp0 = expected(_shape, 'self.logical_files[0]') + ['multi_frame_data_objects[0][0]', 'multi_frame_data_objects[0][1]']
    _exp1 = expected(_shape, 'self.logical_files[1]') + ['multi_frame_data_objects[1][0]']
    CONTRACTS[f'DLISFile.generator[{_shape}]'] = dict(
        target='DLISFile.generator', props=['C09', 'C07', 'C18', 'C03'],
        self_fields={'logical_files': {'cls': None, 'list': [_lf, _lf]}},
        params={'multi_frame_data_objects': 'items[list[opq:mfd]*2,list[opq:mfd]*1]'}, returns='none',
        ensures=[('per-logical-file-header-origin-sets-other-sets-noformat-frame-data-in-creation-order',
                  '__out__ == (' + ', '.join(_exp0 + _exp1) + ')')])
OPQ_MODELS = {'iterator': {'__isinstance__': {}, '__truthy__': True}, 'eflrset': {'__isinstance__': {}, '__truthy__': True}, 'nfdata': {'__isinstance__': {}, '__truthy__': True},
              'mfd': {'__isinstance__': {}, '__truthy__': True}}

ZSET = {'cls': 'ZoneSet', 'fields': {'set_name': 'str?', '_eflr_item_list': 'seqlist[ref]'}}
ZREG = {'cls': 'EFLRSetsDict', 'fields': {'__store__': 'clsdict{ZoneSet:namedict{None:obj:ZSetT,N2:obj:ZSetT},AxisSet:namedict{}}'}}
MODELS = {'ZSetT': ZSET, 'ZSetC': {'cls': 'ZoneSet', 'fields': {'set_name': 'oneof[none,const:"N2",const:"N3"]', '_eflr_item_list': 'seqlist[ref]'}}}
CONTRACTS.update({
 'EFLRSetsDict.get_or_make_set[existing]': dict(
    target='EFLRSetsDict.get_or_make_set', props=['C09', 'C18', 'C20'], self_fields=ZREG['fields'],
    params={'eflr_set_type': 'cls:ZoneSet', 'set_name': 'oneof[none,const:"N2"]'}, returns='obj:ZSetT',
    ensures=[('an-existing-set-is-returned-never-replaced', "result is old(self[ZoneSet][set_name])"),
             ('registry-keeps-it', "self[ZoneSet][set_name] is result"), ('no-new-key', 'len(self[ZoneSet]) == 2')]),
 'EFLRSetsDict.get_or_make_set[new]': dict(
    target='EFLRSetsDict.get_or_make_set', props=['C09', 'C18'], self_fields=ZREG['fields'],
    params={'eflr_set_type': 'cls:ZoneSet', 'set_name': 'const:"N3"'}, returns='obj:ZSetT',
    ensures=[('a-new-set-is-created-and-registered', "self[ZoneSet]['N3'] is result and len(self[ZoneSet]) == 3"),
             ('named', "result.set_name == 'N3'"), ('others-untouched', "self[ZoneSet][None] is old(self[ZoneSet][None]) and self[ZoneSet]['N2'] is old(self[ZoneSet]['N2'])")]),
 # C09 "each (type, name) at most once": for ANY requested name the set handed out is either one of the registered ones or a new one whose
 # WRITTEN name (EFLRSet._make_set_component_bytes writes a name only when it is non-empty) differs from theirs
 'EFLRSetsDict.get_or_make_set[any-name]': dict(
    target='EFLRSetsDict.get_or_make_set', props=['C09'], self_fields=ZREG['fields'],
    params={'eflr_set_type': 'cls:ZoneSet', 'set_name': 'str?'}, returns='obj:ZSetT',
    # registry invariant (kept by get_or_make_set[new] 'named', add_set and try_add_set): a set is registered under its own name
    requires=["self[ZoneSet][None].set_name is None", "self[ZoneSet]['N2'].set_name == 'N2'"],
    ensures=[('a-set-written-without-a-name-is-the-one-registered-as-unnamed', "implies(result.set_name is None or len(result.set_name) == 0, result is old(self[ZoneSet][None]))"),
             ('a-set-written-under-a-registered-name-is-that-registered-set', "implies(result.set_name == 'N2', result is old(self[ZoneSet]['N2']))"),
             ('registered-sets-kept', "self[ZoneSet][None] is old(self[ZoneSet][None]) and self[ZoneSet]['N2'] is old(self[ZoneSet]['N2'])")]),
 # the same when the type has no unnamed set yet: a set that will be written WITHOUT a name must be registered as THE unnamed set
 # (key None), otherwise the next request for the unnamed set creates a second one
 'EFLRSetsDict.get_or_make_set[any-name,no-unnamed-set-yet]': dict(
    target='EFLRSetsDict.get_or_make_set', props=['C09'],
    self_fields={'__store__': 'clsdict{ZoneSet:namedict{N2:obj:ZSetT},AxisSet:namedict{}}'},
    params={'eflr_set_type': 'cls:ZoneSet', 'set_name': 'str?'}, returns='obj:ZSetT',
    requires=["self[ZoneSet]['N2'].set_name == 'N2'"],
    ensures=[('a-set-written-without-a-name-is-registered-as-the-unnamed-set',
              "implies(result.set_name is None or len(result.set_name) == 0, self[ZoneSet].get(None) is result)"),
             ('a-set-written-under-a-registered-name-is-that-registered-set', "implies(result.set_name == 'N2', result is old(self[ZoneSet]['N2']))")]),
 'EFLRSetsDict.try_add_set': dict(
    props=['C09', 'C18'], self_fields=ZREG['fields'], params={'eflr_set': 'obj:ZSetC'}, returns='bool',
    ensures=[('one-set-per-class-and-name', "result == (eflr_set.set_name is not None and eflr_set.set_name == 'N3')"),
             ('existing-entries-kept', "self[ZoneSet][None] is old(self[ZoneSet][None]) and self[ZoneSet]['N2'] is old(self[ZoneSet]['N2'])")]),
})

from contracts.c_compat import GC, FLAG
CH = {'cls': 'ChannelItem', 'fields': {'name': 'str'}}


def _frame(chs):
    return {'cls': 'FrameItem', 'fields': {'name': 'str', 'channels': {'cls': 'Attribute', 'fields': {'_value': chs}}}}


# the properties `channels` / `frames` of LogicalFile are abstracted by their values (lists of registered objects);
# `setup` builds the sharing between the frames' channel lists and the registered channels
FR1 = _frame('none')
ASSIGN = {
    'each-channel-in-exactly-one-frame': (["self.frames[0].channels._value = [self.channels[0], self.channels[1]]"], 1, 'False', 'False'),
    'one-channel-in-two-frames-one-in-none': (["self.frames[0].channels._value = [self.channels[0]]", "self.frames[1].channels._value = [self.channels[0]]"], 2, 'False', FLAG),
    'frame-lists-a-channel-that-is-not-registered': (["self.frames[0].channels._value = [self.channels[0], stranger]"], 1, 'True', 'False'),
    'channel-in-no-frame': (["self.frames[0].channels._value = [self.channels[0]]"], 1, 'False', FLAG),
}
for _nm, (_setup, _nf, _unreg, _warn) in ASSIGN.items():
    CONTRACTS[f'LogicalFile._check_channels_assigned_to_frames[{_nm}]'] = dict(
        target='LogicalFile._check_channels_assigned_to_frames', props=['C12', 'C17', 'C18', 'C09'], globals=GC,
        self_fields={'channels': {'list': [CH, CH]}, 'frames': {'list': [FR1] * _nf}}, params={}, returns='none',
        closure={'stranger': CH}, setup=_setup,
        raises={'RuntimeError': f'{_unreg} or ({_warn})'}, ensures=[])

# ---------------------------------------------------------------------------------------------- dataset names (C18, C11)
DCH = {'cls': 'ChannelItem', 'fields': {'name': 'str', '_dataset_name': 'str?'}}
OTHERS = "result != self.channels[0].dataset_name and result != self.channels[1].dataset_name"
CONTRACTS['LogicalFile._get_unique_dataset_name'] = dict(
    props=['C18', 'C11', 'C20'],
    # `channels` (all channels of the logical file, over all its channel sets) abstracted by its value; copy limit 3 instead of 1000
    self_fields={'channels': {'list': [DCH, DCH]}, '_max_dataset_copy': 'const:3'},
    params={'channel_name': 'str', 'dataset_name': 'str?'}, returns='str',
    raises={'ValueError': 'dataset_name is not None and (dataset_name == self.channels[0].dataset_name or dataset_name == self.channels[1].dataset_name)',
            'RuntimeError': 'dataset_name is None and name_taken(self, channel_name) and name_taken(self, channel_name + "__1") and name_taken(self, channel_name + "__2")'},
    ensures=[('unique-among-all-channels-of-the-logical-file', OTHERS),
             ('explicit-name-kept', 'implies(dataset_name is not None, result == dataset_name)'),
             ('channel-name-when-free', 'implies(dataset_name is None and not name_taken(self, channel_name), result == channel_name)')])

# ---------------------------------------------------------------------------------------------- add_channel (C18, C20, C11)
CSET = {'cls': 'ChannelSet', 'fields': {'set_name': 'none', '_eflr_item_list': 'none'}}
CONTRACTS['ChannelItem.__init__'] = dict(
    props=[], axiom=True,
    params={'name': 'str', 'parent': CSET, 'dataset_name': 'str?', 'cast_dtype': 'oneof[none,opq:dtype]', 'kwargs': {}}, returns='none',
    modifies=['self.name', 'self._dataset_name', 'self._parent'], self_fields={'name': 'str', '_dataset_name': 'str?', '_parent': CSET},
    raises={'AnyException': 'item_rejected(name, dataset_name)'},
    ensures=['self.name == name', 'self._dataset_name == dataset_name', 'self._parent is parent'])
SPEC_UFS = {'item_rejected': (('str', 'opq'), 'bool')}
DCH2 = {'cls': 'ChannelItem', 'fields': {'name': 'str', '_dataset_name': 'str'}}
ADD_CH_PARAMS = {'name': 'str', 'data': 'oneof[none,opq:ndarray]', 'dataset_name': 'str?', 'cast_dtype': 'none', 'long_name': 'none', 'dimension': 'none',
                 'element_limit': 'none', 'properties': 'none', 'units': 'none', 'axis': 'none', 'minimum_value': 'none', 'maximum_value': 'none',
                 'source': 'none', 'set_name': 'none', 'origin_reference': 'none'}
CONTRACTS['LogicalFile.add_channel'] = dict(
    props=['C18', 'C20', 'C11'],
    # self.channels = ALL channels of the logical file (here: one in the target set, one in another channel set)
    self_fields={'channels': {'list': [DCH2, DCH2]}, '_max_dataset_copy': 'const:3', '_data_dict': 'dict{}',
                 'physical_file': {'cls': 'DLISFile', 'fields': {'_eflr_sets': {'cls': 'EFLRSetsDict', 'fields': {}}}},
                 '_eflr_sets': {'cls': 'EFLRSetsDict', 'fields': {}}, 'default_origin_reference': 'int?'},
    params=ADD_CH_PARAMS, returns={'cls': 'ChannelItem', 'fields': {}},
    closure={'target_set': CSET}, setup=['target_set._eflr_item_list = [self.channels[0]]'],
    inline_callees=['LogicalFile._get_unique_dataset_name'],
    stubs={'get_or_make_set': dict(returns_expr='target_set', pure=True), 'try_add_set': dict(returns='bool')},
    may_raise=['AnyException', 'ValueError', 'RuntimeError'],
    ensures=[('dataset-name-unique-among-ALL-channels-of-the-logical-file',
              'result._dataset_name != self.channels[0].dataset_name and result._dataset_name != self.channels[1].dataset_name'),
             ('data-stored-under-that-name-only-after-the-item-was-built', "implies(data is not None, self._data_dict[result._dataset_name] is data)"),
             ('no-data-no-entry', 'implies(data is None, len(self._data_dict) == 0)')],
    # frame (C20, C18): only the data dictionary of this logical file is written, and nothing at all by a rejected call
    modifies=['self._data_dict'], exc_modifies=[],
    exc_ensures=[('rejected-call-stores-no-data', 'len(self._data_dict) == 0')])

# ---------------------------------------------------------------------------------------------- add_frame pre-checks (C20, C12)
CONTRACTS['FrameItem.__init__'] = dict(
    props=[], axiom=True, params={'name': 'str', 'parent': 'opq:eflrset', 'kwargs': {}}, returns='none',
    modifies=[], self_fields={}, raises={'AnyException': 'item_rejected(name, parent)'}, ensures=[])
ADD_FR = {'name': 'str', 'description': 'none', 'index_type': 'none', 'direction': 'none', 'spacing': 'none', 'encrypted': 'none', 'index_min': 'none',
          'index_max': 'none', 'set_name': 'none', 'origin_reference': 'none'}
for _nm, _chs, _exc in (('two-channels', {'list': [DCH2, DCH2]}, None), ('a-non-channel-element', {'list': [DCH2, {'cls': 'Attribute', 'fields': {}}]}, 'TypeError'),
                        ('empty-list', {'list': []}, 'ValueError'), ('not-a-list', 'opq:uval', 'TypeError')):
    CONTRACTS[f'LogicalFile.add_frame[{_nm}]'] = dict(
        target='LogicalFile.add_frame', props=['C20', 'C12'],
        self_fields={'physical_file': {'cls': 'DLISFile', 'fields': {'_eflr_sets': {'cls': 'EFLRSetsDict', 'fields': {}}}},
                     '_eflr_sets': {'cls': 'EFLRSetsDict', 'fields': {}}, 'default_origin_reference': 'int?'},
        params=dict(ADD_FR, channels=_chs), returns={'cls': 'FrameItem', 'fields': {}},
        stubs={'get_or_make_set': dict(returns='opq:eflrset'), 'try_add_set': dict(returns='bool')},
        # C12: an invalid channel list is rejected (by the pre-checks or by the item constructor - either is a rejection before the
        # item is registered, see EFLRItem.__init__); a valid one is not rejected by the pre-checks
        raises={}, may_raise=['AnyException', 'TypeError', 'ValueError'], modifies=[], exc_modifies=[],
        ensures=([('invalid-channel-list-never-accepted', 'False')] if _exc else []))

# ---------------------------------------------------------------------------------------------- DLISFile.write wiring (C01)
from contracts.c_writer import SUL_FIELDS, DW_FIELDS, SUL_TOO_LONG
import contracts.c_writer as _cw
_cw.CONTRACTS['DLISWriter.__init__']['modifies'] = ['self.' + f for f in DW_FIELDS]
SULM = {'cls': 'StorageUnitLabel', 'fields': SUL_FIELDS}
CONTRACTS['DLISFile.write'] = dict(
    props=['C01', 'C10', 'C15', 'C12'],
    self_fields={'_sul': SULM, 'logical_files': {'list': [{'cls': 'LogicalFile', 'fields': {}}]}},
    params={'dlis_file_name': 'opq:path', 'input_chunk_size': 'int?', 'output_chunk_size': 'int?', 'data': 'none', 'from_idx': 'int', 'to_idx': 'int?'},
    returns='none', ghost={'disk': ('bytes', 'fresh_bytes()'), 'stream': ('bytes', "b''"), 'nvr': ('int', '0')},
    stubs={'check_objects': dict(returns='none', raises=True), 'generate_logical_records': dict(returns='seq[ref]', raises=True)},
    may_raise=['ValueError', 'UnicodeEncodeError', 'RuntimeError', 'TypeError'],
    call_requires={
        'DLISWriter.__init__': [('the-writers-limit-is-the-maximum-record-length-declared-in-the-label', 'visible_record_length == self._sul.max_record_length')],
        'DLISWriter.write_storage_unit_label': [('the-label-written-is-the-files-label', 'sul is self._sul')]},
    ensures=[('file-is-label-then-visible-records-prior-content-replaced',
              'disk == sul_bytes(str(self._sul.sequence_number), str(self._sul.max_record_length), self._sul.set_identifier) + stream')])

# ---------------------------------------------------------------------------------------------- origins (C07, C09)
ORG = {'cls': 'OriginItem', 'fields': {'name': 'str', '_origin_reference': 'int'}}
CONTRACTS['LogicalFile.next_available_origin_ref'] = dict(
    props=['C07', 'C09'], self_fields={}, params={'origin_reference': 'int?', 'origins': {'list': [ORG, ORG]}}, returns='int',
    raises={'RuntimeError': 'origin_reference is not None and origin_reference != 0 and (origin_reference == origins[0]._origin_reference or origin_reference == origins[1]._origin_reference)'},
    loops=[dict(inv=['next_available_origin_ref == at_entry(next_available_origin_ref) or at_entry(next_available_origin_ref) == origins[0]._origin_reference '
                     'or at_entry(next_available_origin_ref) == origins[1]._origin_reference', 'next_available_origin_ref >= at_entry(next_available_origin_ref)',
                     'next_available_origin_ref > 0 or (origin_reference is not None and origin_reference != 0 and next_available_origin_ref == origin_reference '
                     'and origin_reference != origins[0]._origin_reference and origin_reference != origins[1]._origin_reference)'])],
    # termination not proved (no variant)
    ensures=[('a-new-origin-reference-is-not-used-by-another-origin-of-the-logical-file',
              'result != origins[0]._origin_reference and result != origins[1]._origin_reference'),
             ('explicit-reference-kept', 'implies(origin_reference is not None and origin_reference != 0, result == origin_reference)'),
             # C07 'the defining origin unless the user chose another': every add_* method reads origin_reference=0 as "not given", so an
             # origin the user can choose must not be numbered 0 (here: an origin added after two others)
             ('a-later-origin-is-never-numbered-0-which-the-add-methods-read-as-not-given', 'result != 0')])
FHI = {'cls': 'FileHeaderItem', 'fields': {'header_id': 'str'}}
DO = {'cls': 'OriginItem', 'fields': {'name': 'str', 'file_id': {'cls': 'Attribute', 'fields': {'_value': 'oneof[none,str]'}}}}
CONTRACTS['LogicalFile._check_defining_origin_params'] = dict(
    props=['C09', 'C12'],
    # the property `defining_origin` (first origin of the logical file's origin sets) abstracted by its value
    self_fields={'defining_origin': 'oneof[none,obj:DefOriginT]', 'file_header_item': FHI}, params={}, returns='none',
    stubs={'value.setter': dict(returns='none')},
    raises={'RuntimeError': 'self.defining_origin is None',
            'ValueError': 'self.defining_origin is not None and self.defining_origin.file_id._value is not None and self.defining_origin.file_id._value != self.file_header_item.header_id'},
    ensures=[])
MODELS['DefOriginT'] = DO
CONTRACTS['LogicalFile._check_completeness'] = dict(
    props=['C09', 'C12'],
    self_fields={'defining_origin': 'oneof[none,obj:DefOriginT]', 'file_header_item': FHI, 'channels': 'oneof[list[int]*0,list[int]*1]',
                 'frames': 'oneof[list[int]*0,list[int]*1]'}, params={}, returns='none',
    raises={'RuntimeError': 'self.defining_origin is None or len(self.channels) == 0 or len(self.frames) == 0'}, ensures=[])

# ---------------------------------------------------------------------------------------------- no-format data order (C16)
CONTRACTS['LogicalFile.add_no_format_frame_data'] = dict(
    props=['C16', 'C09'], self_fields={'_no_format_frame_data': 'seqlist[ref]'},
    params={'no_format_object': {'cls': 'NoFormatItem', 'fields': {'name': 'str'}}, 'data': 'oneof[bytes,bytearray,str]'},
    returns={'cls': 'NoFormatFrameData', 'fields': {}},
    ensures=[('records-keep-the-order-in-which-they-were-added', 'self._no_format_frame_data == old(self._no_format_frame_data) + [result]'),
             ('payload-and-object-kept-as-given', 'result.data == data and result.no_format_object is no_format_object')])

# ---------------------------------------------------------------------------------------------- generate_logical_records (C18, C12, C09)
def LFG(n=1, store='clsdict{OriginSet:namedict{None:obj:ZSetT},ZoneSet:namedict{None:obj:ZSetT,N2:obj:ZSetT}}'):
    # a logical file with n frames; its registry holds (besides the frame list, abstracted by `frames_value`) the sets named in `store`
    return {'cls': 'LogicalFile', 'fields': {'defining_origin': 'oneof[none,opq:item]', '_no_format_frame_data': 'list[opq:nfdata]*1',
                                             '_eflr_sets': {'cls': 'EFLRSetsDict', 'fields': {'__store__': store,
                                                            'frames_value': {'list': [{'cls': 'FrameItem', 'fields': {'name': 'str'}}] * n}}}}}


SPEC_UFS['mfd_of'] = (('opq', 'opq', 'opq', 'opq', 'opq', 'opq'), 'opq')
CONTRACTS['DLISFile.generate_logical_records'] = dict(
    props=['C18', 'C12', 'C09', 'C11', 'C15'],
    self_fields={'logical_files': {'list': [LFG(2), LFG(1, 'clsdict{OriginSet:namedict{None:obj:ZSetT}}')]}, '_eflr_sets': {'cls': 'EFLRSetsDict', 'fields': {'__store__': 'clsdict{}'}}},
    params={'chunk_size': 'int?', 'data': 'oneof[none,opq:source]', 'kwargs': {'from_idx': 'int', 'to_idx': 'int?'}}, returns={'cls': 'SizedGenerator', 'fields': {}},
    setup=["from_idx_in = kwargs['from_idx']", "to_idx_in = kwargs['to_idx']"],     # the window of this write, as passed in
    stubs={'get_all_items_for_set_type': dict(returns_expr_on_receiver='frames_value'),
           '_make_multi_frame_data': dict(returns_uf='mfd_of', returns_uf_kw=['data', 'from_idx', 'to_idx', 'chunk_size'], returns_tag='mfd', raises=True),
           'generator': dict(returns='opq:gen', capture=True)},
    raises={'RuntimeError': 'self.logical_files[0].defining_origin is None or self.logical_files[1].defining_origin is None'},
    may_raise=['StubException'],
    # C11 / C18: EVERY frame of EVERY logical file gets the same data source, row window and chunk size - the ones of this write
    ensures=[('each-logical-file-builds-the-frame-data-of-its-own-frames-in-creation-order-from-the-same-data-window-and-chunk-size',
              "stub_call_generator['multi_frame_data_objects'] == ["
              "[mfd_of(self.logical_files[0], self.logical_files[0]._eflr_sets.frames_value[0], data, from_idx_in, to_idx_in, chunk_size), "
              "mfd_of(self.logical_files[0], self.logical_files[0]._eflr_sets.frames_value[1], data, from_idx_in, to_idx_in, chunk_size)], "
              "[mfd_of(self.logical_files[1], self.logical_files[1]._eflr_sets.frames_value[0], data, from_idx_in, to_idx_in, chunk_size)]]"),
             # C15 / C12: the size handed to the writer's progress bar is the number of records the generator yields (per logical file:
             # header + one per registered set + no-format data + one per row); progressbar raises ValueError beyond its max_value
             ('announced-size-is-the-number-of-records-yielded',
              "len(result) == (1 + 3 + 1 + len(mfd_of(self.logical_files[0], self.logical_files[0]._eflr_sets.frames_value[0], data, from_idx_in, to_idx_in, chunk_size)) + len(mfd_of(self.logical_files[0], self.logical_files[0]._eflr_sets.frames_value[1], data, from_idx_in, to_idx_in, chunk_size))) + (1 + 1 + 1 + len(mfd_of(self.logical_files[1], self.logical_files[1]._eflr_sets.frames_value[0], data, from_idx_in, to_idx_in, chunk_size)))")])
OPQ_MODELS['gen'] = {'__isinstance__': {}, '__truthy__': True}
OPQ_MODELS['item'] = {'__isinstance__': {}, '__truthy__': True}
