"""Loads every contracts/*.py module: CONTRACTS, MODELS, OPQ_MODELS, EXTRAS, per-property texts."""
import ast
import importlib
import os
import pkgutil

HERE = os.path.dirname(os.path.dirname(os.path.abspath(__file__)))


class Registry:
    def __init__(self):
        self.contracts, self.models, self.opq_models = {}, {}, {}
        self.property_extras, self.explanations = {}, {}
        self.trusted, self.assume = {}, {}
        self.spec_ufs = {}
        self.cache_ok = {}
        self._spec = None

    def spec_funcs(self, src=None):
        if self._spec is None:
            path = os.path.join(HERE, 'spec', 'rp66.py')
            self._spec = {}
            if os.path.exists(path):
                t = ast.parse(open(path).read())
                for n in t.body:
                    if isinstance(n, ast.FunctionDef):
                        self._spec[n.name] = n
        return self._spec

    def trusted_base(self, prop):
        return sorted(set(self.trusted.get('*', [])) | set(self.trusted.get(prop, [])))

    def assumptions(self, prop):
        return list(self.assume.get('*', [])) + list(self.assume.get(prop, []))


_cache = None


def load():
    global _cache
    if _cache is not None:
        return _cache
    r = Registry()
    import contracts
    for m in sorted(pkgutil.iter_modules(contracts.__path__), key=lambda x: x.name):
        mod = importlib.import_module('contracts.' + m.name)
        for k, c in getattr(mod, 'CONTRACTS', {}).items():
            if k in r.contracts:
                raise RuntimeError(f'duplicate contract {k}')
            r.contracts[k] = c
        r.models.update(getattr(mod, 'MODELS', {}))
        r.opq_models.update(getattr(mod, 'OPQ_MODELS', {}))
        r.spec_ufs.update(getattr(mod, 'SPEC_UFS', {}))
        r.cache_ok.update(getattr(mod, 'ASSUMED_CONSISTENT_CACHES', {}))
        r.property_extras.update(getattr(mod, 'EXTRAS', {}))
        r.explanations.update(getattr(mod, 'EXPLANATIONS', {}))
        for k, v in getattr(mod, 'TRUSTED', {}).items():
            r.trusted.setdefault(k, []).extend(v)
        for k, v in getattr(mod, 'ASSUMPTIONS', {}).items():
            r.assume.setdefault(k, []).extend(v)
    # layering (contracts/a_meta.py): the root contracts of a layer belong to every property that depends on the layer
    import contracts.a_meta as meta
    for prop, layers in getattr(meta, 'PROPERTY_LAYERS', {}).items():
        for layer in layers:
            roots = getattr(meta, 'LAYER_ROOTS', {}).get(layer, [])
            if roots == '@C06-non-lemma':
                roots = [k for k, c in r.contracts.items() if 'C06' in c.get('props', []) and not c.get('lemma') and not c.get('axiom')]
            for k in roots:
                if prop not in r.contracts[k]['props']:
                    r.contracts[k]['props'] = list(r.contracts[k]['props']) + [prop]
    _cache = r
    return r
