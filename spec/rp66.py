"""RP66 V1 specification library, written from the standard (Appendix B representation codes, section 2 physical/logical
format, section 3 EFLR components) - NOT from the code under verification.

Every function is in pyvc's verified subset, so the same text is (a) inlined symbolically into proof obligations and
(b) executed by CPython in replays and bounded monitors."""


# ---------------------------------------------------------------------------------------------- fixed-width integers
def enc_ushort(v):
    return bytes([v])


def enc_unorm(v):
    return bytes([v // 256, v % 256])


def enc_ulong(v):
    return bytes([v // 16777216, (v // 65536) % 256, (v // 256) % 256, v % 256])


def enc_sshort(v):
    return bytes([v % 256])                 # two's complement, 8 bit


def enc_snorm(v):
    return enc_unorm(v % 65536)             # two's complement, 16 bit big-endian


def enc_slong(v):
    return enc_ulong(v % 4294967296)        # two's complement, 32 bit big-endian


def dec_ushort(b):
    return (b[0], 1)


def dec_unorm(b):
    return (b[0] * 256 + b[1], 2)


def dec_ulong(b):
    return (b[0] * 16777216 + b[1] * 65536 + b[2] * 256 + b[3], 4)


def dec_sshort(b):
    return ((b[0] - 256 if b[0] >= 128 else b[0]), 1)


def dec_snorm(b):
    u = b[0] * 256 + b[1]
    return ((u - 65536 if u >= 32768 else u), 2)


def dec_slong(b):
    u = b[0] * 16777216 + b[1] * 65536 + b[2] * 256 + b[3]
    return ((u - 4294967296 if u >= 2147483648 else u), 4)


# ---------------------------------------------------------------------------------------------- UVARI (B.18)
def enc_uvari(v):
    """1 byte 0xxxxxxx for 0..127, 2 bytes 10xxxxxx xxxxxxxx for 128..16383, 4 bytes 11xxxxxx ... for 16384..2^30-1"""
    if v < 128:
        return enc_ushort(v)
    if v < 16384:
        return enc_unorm(v + 32768)
    return enc_ulong(v + 3221225472)


def dec_uvari(b):
    if b[0] < 128:
        return (b[0], 1)
    if b[0] < 192:
        return ((b[0] - 128) * 256 + b[1], 2)
    return ((b[0] - 192) * 16777216 + b[1] * 65536 + b[2] * 256 + b[3], 4)


def uvari_len(v):
    return 1 if v < 128 else (2 if v < 16384 else 4)


# ---------------------------------------------------------------------------------------------- text
def enc_ident(s):
    """IDENT (B.19): USHORT length (0..255) followed by that many ASCII characters"""
    return enc_ushort(len(s)) + ascii_bytes(s)


def enc_ascii(s):
    """ASCII (B.20): UVARI length followed by that many ASCII characters"""
    return enc_uvari(len(s)) + ascii_bytes(s)


def dec_ident(b):
    return (b[1:1 + b[0]], 1 + b[0])


def dec_ascii(b):
    n = dec_uvari(b)
    return (b[n[1]:n[1] + n[0]], n[1] + n[0])


def ascii_bytes(s):
    """code points of s as bytes (only meaningful when every code point is < 128; pyvc treats it as the identity on code points)"""
    return bytes([ord(c) % 256 for c in s])


def all_ascii(s):
    return all(ord(c) < 128 for c in s) if isinstance(s, str) else all(c < 128 for c in s)


# ---------------------------------------------------------------------------------------------- STATUS, OBNAME, OBJREF
def enc_status(v):
    return enc_ushort(v)


def enc_obname(origin, copy, name):
    """OBNAME (B.23): ORIGIN (UVARI) + COPY (USHORT) + IDENTIFIER (IDENT)"""
    return enc_uvari(origin) + enc_ushort(copy) + enc_ident(name)


def enc_objref(set_type, origin, copy, name):
    """OBJREF (B.24): object type (IDENT) + OBNAME"""
    return enc_ident(set_type) + enc_obname(origin, copy, name)


# ---------------------------------------------------------------------------------------------- DTIME (B.21)
def enc_dtime_fields(y, tz, m, d, h, mn, s, ms):
    """Y-1900 (USHORT), TZ nibble | month nibble, day, hour, minute, second (USHORT each), milliseconds (UNORM)"""
    return enc_ushort(y) + enc_ushort(tz * 16 + m) + enc_ushort(d) + enc_ushort(h) + enc_ushort(mn) + enc_ushort(s) + enc_unorm(ms)


# ---------------------------------------------------------------------------------------------- physical format
def lrs_attr_byte(is_eflr, has_pred, has_succ, pad):
    """logical record segment attributes (2.2.2.1): bit 8 structure, 7 predecessor, 6 successor, 5 encryption,
    4 encryption packet, 3 checksum, 2 trailing length, 1 padding"""
    return (128 if is_eflr else 0) + (64 if has_pred else 0) + (32 if has_succ else 0) + (1 if pad else 0)


def seg_pad(n):
    """number of pad bytes for a segment body of n bytes: fill up to the 16-byte minimum, then to an even length"""
    p = 12 - n if n < 12 else 0
    return p + (n + p) % 2


def seg(is_eflr, has_pred, has_succ, type_byte, payload):
    """one logical record segment: header (UNORM length, attributes, type) + payload + pad bytes (the last one holds the count)
    so that the total length is even and at least 16"""
    n = len(payload)
    pad = seg_pad(n)
    return enc_unorm(n + 4 + pad) + enc_ushort(lrs_attr_byte(is_eflr, has_pred, has_succ, pad > 0)) + type_byte + payload + pad * enc_ushort(pad)


def vr(body):
    """visible record (2.3.6): UNORM length including the 4 header bytes, 0xFF, 0x01 (format version), then segments"""
    return enc_unorm(len(body) + 4) + bytes([255, 1]) + body


def rjust(s, n):
    return (n - len(s)) * ' ' + s


def ljust(s, n):
    return s + (n - len(s)) * ' '


def sul_bytes(seq_str, max_len_str, ident):
    """storage unit label (2.3.2): 4 sequence number (right just.), 5 'V1.00', 6 'RECORD', 5 max record length (right just.),
    60 storage set identifier (left just.)  = 80 ASCII bytes"""
    return ascii_bytes(rjust(seq_str, 4) + 'V1.00' + 'RECORD' + rjust(max_len_str, 5) + ljust(ident, 60))


# ---------------------------------------------------------------------------------------------- lemmas (checked by pyvc)
def lemma_uvari_roundtrip(v, rest):
    return dec_uvari(enc_uvari(v) + rest)


def lemma_unorm_roundtrip(v, rest):
    return dec_unorm(enc_unorm(v) + rest)


def lemma_ulong_roundtrip(v, rest):
    return dec_ulong(enc_ulong(v) + rest)


def lemma_ushort_roundtrip(v, rest):
    return dec_ushort(enc_ushort(v) + rest)


def lemma_sshort_roundtrip(v, rest):
    return dec_sshort(enc_sshort(v) + rest)


def lemma_snorm_roundtrip(v, rest):
    return dec_snorm(enc_snorm(v) + rest)


def lemma_slong_roundtrip(v, rest):
    return dec_slong(enc_slong(v) + rest)


def lemma_ident_roundtrip(s, rest):
    return dec_ident(enc_ident(s) + rest)


def lemma_ascii_roundtrip(s, rest):
    return dec_ascii(enc_ascii(s) + rest)


# ---------------------------------------------------------------------------------------------- IEEE-754 (X-FLOAT: struct is the oracle)
def ieee32(v):
    import struct
    return struct.pack('>f', v)


def ieee64(v):
    import struct
    return struct.pack('>d', v)


def f32_overflow(v):
    import struct
    try:
        struct.pack('>f', v)
        return False
    except OverflowError:
        return True


# ---------------------------------------------------------------------------------------------- high-compatibility names (C17's own text)
def hc_name_ok(s):
    """names allowed in high-compatibility mode: one or more of A-Z 0-9 _ -"""
    import re
    return re.fullmatch('[A-Z0-9_-]+', s) is not None


def enum_member(enum_name, v):
    """v is the value of a member of the library's enumeration `enum_name` (table read from the installed source)"""
    from dliswriter.utils import enums
    return v in [m.value for m in getattr(enums, enum_name)]


# ---------------------------------------------------------------------------------------------- channel dtypes (table of property C08)
def dtype_code(name):
    """representation code of a frame channel by numpy dtype name: int8 SSHORT, int16 SNORM, int32 SLONG, uint8 USHORT, uint16 UNORM,
    uint32 ULONG, float32 FSINGL, float64 FDOUBL; -1 for anything else (unsupported)"""
    return (12 if name == 'int8' else 13 if name == 'int16' else 14 if name == 'int32' else 15 if name == 'uint8' else
            16 if name == 'uint16' else 17 if name == 'uint32' else 2 if name == 'float32' else 7 if name == 'float64' else -1)


def code_size(code):
    """bytes per element of the fixed-width codes used for channel data"""
    if code in (12, 15):
        return 1
    if code in (13, 16):
        return 2
    if code in (14, 17, 2):
        return 4
    if code == 7:
        return 8
    return -1


def name_taken(lf, n):
    """n is the dataset name of one of the (two) channels of the logical file model"""
    return n == lf.channels[0].dataset_name or n == lf.channels[1].dataset_name
