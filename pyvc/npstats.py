"""X-NPSTEP: a model of numpy's element-wise arithmetic over the consecutive differences ("steps") of a 1-D index array, precise enough
to verify FrameItem._compute_spacing_and_direction (C13) for arrays of ANY length >= 2, instead of sampling it.

An index array x (an opaque ndarray term) is abstracted by four mathematical quantities, uninterpreted functions of x:
    step_min(x) <= step_median(x) <= step_max(x)  (reals)        step_count(x) >= 1  (int; the number of steps = rows - 1)
    step_distinct(x) >= 1 (int), with  step_distinct(x) == 1  <=>  step_min(x) == step_max(x).
Values:
    SV('real', r)                      a float / numpy scalar, as the mathematical real r (floating-point rounding is NOT modelled: stated
                                       in the trusted base as "machine arithmetic treated as mathematical")
    SV('earr', (x, fn, kind, uniq))    the array [fn(d) for d in steps(x)] (kind 'real' or 'bool'); uniq: after np.unique (sorted, distinct)
Axioms used (validated against the installed numpy on every run by bounded/axioms.py, group X-NPSTEP):
    np.diff(x)[i] == x[i+1] - x[i]; np.unique keeps the set of elements, sorted ascending (so unique(d)[0] is the least element, [-1] the
    greatest, len == number of distinct elements); element-wise operators with a scalar act per element; np.median / np.mean of the steps
    lie between the least and the greatest step;
    A.all(): TRUE  => the predicate holds for the least and the greatest step (they are elements);
             FALSE => it fails for SOME value w with step_min <= w <= step_max (a Skolem witness: the failing element).
    The second half over-approximates (w need not be a step), which is sound for proving: every behaviour of the real function is a
    behaviour of the model. For predicates whose truth set is an interval (== c, >= c, <= c, (1 - d/m)**2 < t) it is exact.
Not modelled (a contract using this model must exclude them in `requires`, and the open findings cover them natively): integer
wrap-around inside np.diff for narrow / unsigned dtypes, NaN / inf elements, an array with a single row (no steps)."""
import ast
import z3
from .values import *

REAL = z3.RealSort()


def _rconst(v):
    if isinstance(v, bool):
        return z3.RealVal(int(v))
    if isinstance(v, int):
        return z3.RealVal(v)
    return z3.RealVal(repr(float(v)))            # the decimal the literal denotes (same conversion on the code side and the spec side)


class StepStatsMixin:
    # ------------------------------------------------------------------ the abstraction of an index array
    def step_fn(self, name, x, sort=REAL):
        return self.ufunc('step_' + name, OPQ, sort)(x)

    def step_axioms(self, x):
        key = ('stepax', str(x))
        if key in self.st.ghost:
            return
        self.st.ghost[key] = True
        lo, hi, med, mean = (self.step_fn(n, x) for n in ('min', 'max', 'median', 'mean'))
        n, nd = self.step_fn('count', x, INT), self.step_fn('distinct', x, INT)
        self.assume(z3.And(lo <= med, med <= hi, lo <= mean, mean <= hi, n >= 1, nd >= 1, nd <= n, (nd == 1) == (lo == hi)))

    def is_np_value(self, v):
        return v.k in ('real', 'earr')

    def as_real(self, v):
        if v.k == 'real':
            return v.t
        if v.k == 'const' and isinstance(v.t, (int, float)):
            return _rconst(v.t)
        if v.k in ('int', 'bool'):
            return z3.ToReal(self.as_int(v))
        raise Unsupported(f'as_real {v}')

    # ------------------------------------------------------------------ numpy entry points
    def np_diff(self, args, kw, node):
        a = args[0]
        if a.k != 'opq' or kw or len(args) != 1:
            raise Unsupported('np.diff of this value')
        self.step_axioms(a.t)
        return SV('earr', (a.t, (lambda d: d), 'real', False))

    def np_unique(self, args, kw, node):
        a = args[0]
        if a.k != 'earr' or kw or len(args) != 1:
            raise Unsupported('np.unique of this value')
        x, fn, kind, _ = a.t
        if not self._is_identity(a):
            raise Unsupported('np.unique of a derived array')
        return SV('earr', (x, fn, kind, True))

    def _is_identity(self, a):
        probe = z3.Real('__probe')
        return a.t[2] == 'real' and z3.eq(z3.simplify(a.t[1](probe)), probe)

    def np_central(self, which, args, kw, node):
        a = args[0]
        if a.k != 'earr' or kw or len(args) != 1 or not self._is_identity(a):
            raise Unsupported(f'np.{which} of this value')
        x, _, _, uniq = a.t
        # the median / mean of the DISTINCT steps is another quantity than that of all steps (both lie within the range)
        name = which + ('_of_distinct' if uniq else '')
        r = self.step_fn(name, x)
        self.assume(z3.And(self.step_fn('min', x) <= r, r <= self.step_fn('max', x)))
        return SV('real', r)

    # ------------------------------------------------------------------ operators
    def np_binop(self, op, a, b, node=None):
        def scal(opn, p, q):
            if opn == 'Add':
                return p + q
            if opn == 'Sub':
                return p - q
            if opn == 'Mult':
                return p * q
            if opn == 'Div':
                return p / q
            if opn == 'Pow':
                qs = z3.simplify(q)
                if z3.is_rational_value(qs) and qs.denominator_as_long() == 1 and 0 <= qs.numerator_as_long() <= 4:
                    r = z3.RealVal(1)
                    for _ in range(qs.numerator_as_long()):
                        r = r * p
                    return r
            raise Unsupported(f'numpy operator {opn} in the step model')
        if a.k == 'earr' and b.k == 'earr':
            if not z3.eq(a.t[0], b.t[0]) or a.t[3] != b.t[3]:
                raise Unsupported('element-wise operation on two different arrays')
            (x, f, ka, u), g = a.t, b.t[1]
            if ka != 'real' or b.t[2] != 'real':
                raise Unsupported('arithmetic on a boolean array')
            return SV('earr', (x, (lambda d: scal(op, f(d), g(d))), 'real', u))
        if a.k == 'earr':
            x, f, ka, u = a.t
            if ka != 'real':
                raise Unsupported('arithmetic on a boolean array')
            if op == 'Div' and not self.in_spec:
                self.np_div_guard(self.as_real(b), node)
            c = self.as_real(b)
            return SV('earr', (x, (lambda d: scal(op, f(d), c)), 'real', u))
        if b.k == 'earr':
            x, g, kb, u = b.t
            if kb != 'real':
                raise Unsupported('arithmetic on a boolean array')
            c = self.as_real(a)
            return SV('earr', (x, (lambda d: scal(op, c, g(d))), 'real', u))
        p, q = self.as_real(a), self.as_real(b)
        if op == 'Div' and not self.in_spec:
            if self.branch(q == 0):
                raise PyRaise('ZeroDivisionError')
        return SV('real', scal(op, p, q))

    def np_div_guard(self, q, node):
        # numpy division of an array by a zero scalar gives inf / nan with a warning - outside the model: the code must have excluded it
        self.oblige('divisor-is-not-zero[X-NPSTEP]', q != 0, node, aux=True, info='division of an array by a scalar that may be zero')

    REL = {'Lt': lambda p, q: p < q, 'LtE': lambda p, q: p <= q, 'Gt': lambda p, q: p > q, 'GtE': lambda p, q: p >= q,
           'Eq': lambda p, q: p == q, 'NotEq': lambda p, q: p != q}

    def np_compare(self, o, a, b):
        """comparison involving an array: the element-wise boolean array; two scalars: a z3 Bool"""
        rel = self.REL.get(o)
        if rel is None:
            raise Unsupported(f'comparison {o} in the step model')
        if a.k == 'earr' and b.k == 'earr':
            if not z3.eq(a.t[0], b.t[0]) or a.t[3] != b.t[3]:
                raise Unsupported('element-wise comparison of two different arrays')
            (x, f, _, u), g = a.t, b.t[1]
            return SV('earr', (x, (lambda d: rel(f(d), g(d))), 'bool', u))
        if a.k == 'earr':
            x, f, _, u = a.t
            c = self.as_real(b)
            return SV('earr', (x, (lambda d: rel(f(d), c)), 'bool', u))
        if b.k == 'earr':
            x, g, _, u = b.t
            c = self.as_real(a)
            return SV('earr', (x, (lambda d: rel(c, g(d))), 'bool', u))
        return VB(rel(self.as_real(a), self.as_real(b)))

    def np_unary(self, opname, a):
        if a.k == 'real':
            return SV('real', -a.t) if opname == 'USub' else a
        x, f, k, u = a.t
        if opname == 'USub' and k == 'real':
            if u:
                raise Unsupported('negation of a sorted array (order flips)')
            return SV('earr', (x, (lambda d: -f(d)), 'real', u))
        if opname in ('Invert', 'Not') and k == 'bool' and opname == 'Invert':
            return SV('earr', (x, (lambda d: z3.Not(f(d))), 'bool', u))
        raise Unsupported(f'unary {opname} in the step model')

    # ------------------------------------------------------------------ reductions, length, indexing
    def np_method(self, recv, name, args, kw, node):
        if recv.k == 'real':
            if name == 'item' and not args:
                return recv
            if name == 'is_integer' and not args:
                return VB(z3.IsInt(recv.t))
            raise Unsupported(f'method {name} of a float')
        x, f, kind, u = recv.t
        lo, hi = self.step_fn('min', x), self.step_fn('max', x)
        if name in ('all', 'any') and not args and not kw:
            if kind != 'bool':
                p = lambda d: f(d) != 0
            else:
                p = f
            r = self.sym('np_' + name, BOOL)
            w = self.sym('np_witness', REAL)
            inside = z3.And(lo <= w, w <= hi)
            if name == 'all':
                self.assume(z3.Implies(r, z3.And(p(lo), p(hi))))
                self.assume(z3.Implies(z3.Not(r), z3.And(inside, z3.Not(p(w)))))
            else:
                self.assume(z3.Implies(z3.Not(r), z3.And(z3.Not(p(lo)), z3.Not(p(hi)))))
                self.assume(z3.Implies(r, z3.And(inside, p(w))))
            return VB(r)
        if name in ('min', 'max') and not args and not kw and self._is_identity(recv):
            return SV('real', lo if name == 'min' else hi)
        if name == 'item' and not args:
            raise Unsupported('item() of an array with possibly several elements')
        if name == 'tolist':
            raise Unsupported('tolist() in the step model')
        raise Unsupported(f'method {name} of an array in the step model')

    def np_len(self, a):
        x, _, _, u = a.t
        return VI(self.step_fn('distinct' if u else 'count', x, INT))

    def np_index(self, a, idx, node):
        x, f, kind, u = a.t
        ic = None
        if idx.k in ('int', 'bool'):
            s = z3.simplify(self.as_int(idx))
            ic = s.as_long() if z3.is_int_value(s) else None
        if ic is None:
            raise Unsupported('array index that is not a constant')
        n = self.step_fn('distinct' if u else 'count', x, INT)
        if not self.in_spec:
            if self.branch(z3.Not(n >= (ic + 1 if ic >= 0 else -ic))):
                raise PyRaise('IndexError')
        if u and self._is_identity(a) and ic in (0, -1):
            e = self.step_fn('min' if ic == 0 else 'max', x)        # sorted ascending: first = least, last = greatest
        else:
            e = self.ufunc('step_at' + ('_distinct' if u else ''), OPQ, INT, REAL)(x, z3.IntVal(ic))
            self.assume(z3.And(self.step_fn('min', x) <= e, e <= self.step_fn('max', x)))
        v = f(e)
        return VB(v) if kind == 'bool' else SV('real', v)

    def np_attr(self, base, name, node):
        if base.k == 'earr':
            if name in ('all', 'any', 'min', 'max', 'item', 'tolist'):
                return SV('func', FuncVal(builtin='npstep:' + name, bound=base, name=name))
            if name == 'size':
                return self.np_len(base)
            if name == 'ndim':
                return VI(1)
        if base.k == 'real' and name in ('item', 'is_integer'):
            return SV('func', FuncVal(builtin='npstep:' + name, bound=base, name=name))
        raise Unsupported(f'attribute {name} in the step model')
