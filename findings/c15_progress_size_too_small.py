"""Regression witness (C15, C12): the record count handed to the writer's progress bar counted objects instead of records (one per set
plus one header per logical file).  With several logical files, or sets of one object, it was smaller than the number of records the
generator yields, and progressbar raises 'ValueError: Value N is too large' whenever a redraw falls due after the count is reached -
whether write() succeeded depended on how long the records took to write.  Exit 1 while the announced size is too small."""
import sys
import numpy as np
from dliswriter import DLISFile
df = DLISFile()
for k in range(3):
    lf = df.add_logical_file(); lf.add_origin(f'O{k}', file_set_number=1, set_name=f's{k}')
    ch = lf.add_channel(f'A{k}', data=np.zeros(2), set_name=f's{k}')
    lf.add_frame(f'F{k}', channels=(ch,), set_name=f's{k}')
recs = df.generate_logical_records(chunk_size=None)
announced = len(recs)
yielded = sum(1 for _ in recs)
print('announced', announced, 'yielded', yielded)
sys.exit(1 if announced < yielded else 0)
