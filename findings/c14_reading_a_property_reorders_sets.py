"""Witness for the open finding (C14): merely READING `LogicalFile.frames` / `.channels` / `.origins` (or any lookup of a set type that
has no set yet) inserts an empty entry for that type into the registry (a defaultdict).  The entry keeps its place, so the sets of that
type come out EARLIER in the file than in an equal specification that was built without the look.  Exit 1 while it reproduces."""
import os
import sys
import tempfile
from datetime import datetime
import numpy as np
from dliswriter import DLISFile


def build(peek):
    df = DLISFile(); lf = df.add_logical_file(); lf.add_origin('O', file_set_number=1, creation_time=datetime(2020, 1, 2, 3, 4, 5))
    if peek:
        _ = lf.frames          # a read-only look at the specification
    ch = lf.add_channel('A', data=np.arange(3.0))
    lf.add_zone('Z')
    lf.add_frame('F', channels=(ch,))
    return df


def written(df):
    d = tempfile.mkdtemp(); p = os.path.join(d, 'x.dlis')
    try:
        df.write(p)
        return open(p, 'rb').read()
    finally:
        os.path.exists(p) and os.remove(p); os.rmdir(d)


a, b = written(build(False)), written(build(True))
print('FRAME set before ZONE set: without the look =', a.find(b'\x05FRAME') < a.find(b'\x04ZONE'), '; after reading lf.frames =', b.find(b'\x05FRAME') < b.find(b'\x04ZONE'))
sys.exit(0 if a == b else 1)
