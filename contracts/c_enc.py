"""Contracts: L-ENC primitive encoders (property C06) and the spec lemmas that validate spec/rp66.py itself."""

RC = 'RepresentationCode'
U30 = 1073741824

OPQ_MODELS = {
    'datetime': {'year': 'int', 'month': 'int', 'day': 'int', 'hour': 'int', 'minute': 'int', 'second': 'int', 'microsecond': 'int',
                 'astimezone': 'method', '__isinstance__': {'datetime': True}},
    'float': {'__isinstance__': {'float': True, 'Number': True, 'numbers.Number': True}},
}

ITEM_REF_MODEL = {'cls': 'EFLRItem', 'fields': {'_origin_reference': 'int?', '_copy_number': 'int', 'name': 'str',
                                                  '_parent': {'cls': 'EFLRSet', 'fields': {'set_type': 'str'}}}}

CONTRACTS = {}

# ---------------------------------------------------------------------------------------------- lemmas on the spec itself
def _lemma(name, params, requires, ensures):
    CONTRACTS[name] = dict(props=['C06'], params=params, requires=requires, ensures=ensures, lemma=True)

_lemma('lemma_ushort_roundtrip', {'v': 'int', 'rest': 'bytes'}, ['0 <= v <= 255'], [('rt', 'result == (v, 1)')])
_lemma('lemma_unorm_roundtrip', {'v': 'int', 'rest': 'bytes'}, ['0 <= v <= 65535'], [('rt', 'result == (v, 2)')])
_lemma('lemma_ulong_roundtrip', {'v': 'int', 'rest': 'bytes'}, ['0 <= v <= 4294967295'], [('rt', 'result == (v, 4)')])
_lemma('lemma_sshort_roundtrip', {'v': 'int', 'rest': 'bytes'}, ['-128 <= v <= 127'], [('rt', 'result == (v, 1)')])
_lemma('lemma_snorm_roundtrip', {'v': 'int', 'rest': 'bytes'}, ['-32768 <= v <= 32767'], [('rt', 'result == (v, 2)')])
_lemma('lemma_slong_roundtrip', {'v': 'int', 'rest': 'bytes'}, ['-2147483648 <= v <= 2147483647'], [('rt', 'result == (v, 4)')])
_lemma('lemma_uvari_roundtrip', {'v': 'int', 'rest': 'bytes'}, [f'0 <= v < {U30}'], [('rt', 'result == (v, uvari_len(v))')])
_lemma('lemma_ident_roundtrip', {'s': 'str', 'rest': 'bytes'}, ['len(s) <= 255'], [('rt', 'result == (ascii_bytes(s), 1 + len(s))')])
_lemma('lemma_ascii_roundtrip', {'s': 'str', 'rest': 'bytes'}, [f'len(s) < {U30}'], [('rt', 'result == (ascii_bytes(s), uvari_len(len(s)) + len(s))')])

# ---------------------------------------------------------------------------------------------- writer functions
CONTRACTS.update({
 'write_struct_uvari': dict(
    props=['C06', 'C12'],
    params={'value': 'int'}, returns='bytes',
    raises={'struct.error': f'value < 0 or value >= {U30}'},
    ensures=[('spec', 'result == enc_uvari(value)'), ('len', 'len(result) == uvari_len(value)')]),
 'write_struct_ascii': dict(
    props=['C06', 'C12'],
    params={'value': 'str'}, returns='bytes',
    raises={'struct.error': f'len(value) >= {U30}', 'UnicodeEncodeError': f'len(value) < {U30} and not all_ascii(value)'},
    ensures=[('spec', 'result == enc_ascii(value)')]),
 'write_struct_status': dict(
    props=['C06', 'C12'],
    params={'value': 'int'}, returns='bytes',
    raises={'ValueError': 'value != 0 and value != 1'},
    ensures=[('spec', 'result == enc_status(value)')]),
 'write_struct_dtime': dict(
    props=['C06', 'C12'],
    params={'date_time': 'opq:datetime'}, returns='bytes',
    raises={'struct.error': 'date_time.astimezone(timezone.utc).year < 1900 or date_time.astimezone(timezone.utc).year > 2155'},
    ensures=[('len', 'len(result) == 8'),
             ('fields', 'result[0:6] == enc_dtime_fields(date_time.astimezone(timezone.utc).year - 1900, 2, date_time.astimezone(timezone.utc).month, '
                        'date_time.astimezone(timezone.utc).day, date_time.astimezone(timezone.utc).hour, date_time.astimezone(timezone.utc).minute, '
                        'date_time.astimezone(timezone.utc).second, 0)[0:6]'),
             ('ms-range', '0 <= result[6] * 256 + result[7] <= 999'),
             ('ms-nearest', '-500 <= 1000 * (result[6] * 256 + result[7]) - date_time.astimezone(timezone.utc).microsecond <= 500 '
                            'or (result[6] * 256 + result[7] == 999 and date_time.astimezone(timezone.utc).microsecond >= 999500)')]),
 'write_struct_obname': dict(
    props=['C06', 'C07', 'C12'],
    params={'value': ITEM_REF_MODEL}, returns='bytes',
    raises={'RuntimeError': 'value._origin_reference is None',
            'struct.error': f'value._origin_reference is not None and (value._origin_reference < 0 or value._origin_reference >= {U30} or value._copy_number < 0 '
                            f'or value._copy_number > 255 or len(value.name) >= {U30})',
            'UnicodeEncodeError': f'value._origin_reference is not None and 0 <= value._origin_reference < {U30} and 0 <= value._copy_number <= 255 '
                                  f'and len(value.name) < {U30} and not all_ascii(value.name)'},
    ensures=[('layout', 'result == enc_uvari(value._origin_reference) + enc_ushort(value._copy_number) + enc_ascii(value.name)'),
             ('ident', 'implies(len(value.name) <= 127, result == enc_obname(value._origin_reference, value._copy_number, value.name))')]),
})
