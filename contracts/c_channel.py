"""Contracts: channel descriptors vs data layout (C08), cast dtype handling (C20 exceptional frame)."""
CONTRACTS = {
 'ReprCodeConverter.validate_numpy_dtype[np.dtype]': dict(
    target='ReprCodeConverter.validate_numpy_dtype', props=['C08', 'C12'], self_is_class=True,
    params={'number_type': 'opq:dtype'}, returns='tuple[str,enumv:RepresentationCode]',
    raises={'ValueError': 'dtype_code(number_type.name) == -1'},
    ensures=[('name', 'result[0] == number_type.name'),
             ('code-of-the-dtype-as-in-the-standard-table', 'result[1].value == dtype_code(number_type.name)')]),
 'ReprCodeConverter.determine_repr_code_from_numpy_dtype': dict(
    props=['C08'], self_is_class=True, params={'dt': 'opq:dtype'}, returns='enumv:RepresentationCode',
    raises={'ValueError': 'dtype_code(dt.name) == -1'},
    ensures=[('code-of-the-dtype', 'result.value == dtype_code(dt.name)')]),
}

RCA = {'cls': 'ReprCodeAttribute', 'fields': {'_value': 'oneof[none,enumv:RepresentationCode]'}}
CH_FIELDS = {'name': 'str', '_cast_dtype': 'oneof[none,opq:dtype]', 'representation_code': RCA}
CODE_MATCHES = ('(self._cast_dtype is None and self.representation_code._value is None) or '
                '(self._cast_dtype is not None and self.representation_code._value is not None and '
                'self.representation_code._value.value == dtype_code(self._cast_dtype.name))')

CONTRACTS.update({
 'ReprCodeAttribute.set_from_dtype': dict(
    props=['C08'], self_fields=RCA['fields'], params={'dt': 'oneof[none,opq:dtype]'}, returns='none', modifies=['self._value'],
    raises={'ValueError': 'dt is not None and dtype_code(dt.name) == -1'},
    ensures=[('absent-without-dtype', 'implies(dt is None, self._value is None)'),
             ('code-of-the-dtype', 'implies(dt is not None, self._value is not None and self._value.value == dtype_code(dt.name))')],
    exc_ensures=[('unchanged-when-rejected', 'self._value is old(self._value) or self._value == old(self._value)')]),
 'ChannelItem._set_cast_dtype': dict(
    # C03 too: the chunk dtype is taken from the channels' cast dtypes BEFORE the per-write set-up (known_channel_dtypes_mapping), so
    # "bit-exact under the declared code" needs the cast dtype that built the wrapper to stay the channel's dtype (round 7, C03-M)
    props=['C08', 'C20', 'C03'], self_fields=CH_FIELDS, params={'dt': 'oneof[none,opq:dtype]'}, returns='none',
    modifies=['self._cast_dtype', 'self.representation_code._value'],
    requires=[CODE_MATCHES],
    raises={'ValueError': 'dt is not None and dtype_code(dt.name) == -1'},
    ensures=[('cast-dtype-stored', 'self._cast_dtype is dt'), ('representation-code-follows-the-cast-dtype', CODE_MATCHES)],
    exc_ensures=[('rejected-dtype-leaves-no-trace', 'self._cast_dtype is old(self._cast_dtype)'),
                 ('code-still-matches-after-rejection', CODE_MATCHES)]),
 'ChannelItem._set_repr_code_from_data': dict(
    props=['C08', 'C03'], self_fields=CH_FIELDS, params={'sub_data': 'opq:ndarray'}, returns='none',
    modifies=['self._cast_dtype', 'self.representation_code._value'],
    requires=[CODE_MATCHES],
    raises={'ValueError': 'self._cast_dtype is None and dtype_code(sub_data.dtype.name) == -1'},
    ensures=[('declared-code-is-the-code-of-the-dtype-written', CODE_MATCHES),
             ('user-cast-kept', 'implies(old(self._cast_dtype) is not None, self._cast_dtype is old(self._cast_dtype))'),
             ('source-dtype-used-without-cast', 'implies(old(self._cast_dtype) is None, self._cast_dtype is sub_data.dtype)')]),
 'ChannelItem.set_dimension_and_repr_code_from_data': dict(
    props=['C08', 'C03'], self_fields=CH_FIELDS, params={'data': {'cls': 'SourceDataWrapper', 'fields': {}}}, returns='none',
    requires=[CODE_MATCHES],
    ghost={'dimension_compared': ('bool', 'False')},
    stubs={'__getitem__': dict(returns='opq:ndarray', raises=True, pure=True),
           '_set_dimension_from_data': dict(returns='none', raises=True, ghost_set={'dimension_compared': 'True'})},
    may_raise=['ValueError'], modifies=['self._cast_dtype', 'self.representation_code._value'],
    exc_modifies=['self._cast_dtype', 'self.representation_code._value'],
    ensures=[('declared-code-is-the-code-of-the-dtype-written', CODE_MATCHES),
             ('a-cast-dtype-is-known-after-setup', 'self._cast_dtype is not None'),
             # C08 "DIMENSION ... equal to the row shape of the data": whatever the user stated beforehand, the data's row shape is
             # compared with it (and adopted when nothing was stated) on every set-up that returns normally
             ('stated-dimension-is-always-checked-against-the-data', 'dimension_compared')]),
})

MODELS = {'ReprCodeAttribute': RCA, 'ChannelItem': {'fields': CH_FIELDS, 'inv': []}}

# ---------------------------------------------------------------------------------------------- frame -> data mapping (C08, C11)
def _chs(*specs):
    return {'cls': 'Attribute', 'fields': {'_value': {'list': list(specs)}}}


CHN = lambda: {'cls': 'ChannelItem', 'fields': {'name': 'str', '_dataset_name': 'str?', '_cast_dtype': 'oneof[none,opq:dtype]'}}
CONTRACTS.update({
 'FrameItem.channel_name_mapping': dict(
    props=['C11', 'C08'], kind='get', self_fields={'channels': _chs(CHN(), CHN())}, params={}, returns='dict{}',
    ensures=[('slot-order-follows-the-frames-channel-list', 'len(result) == (1 if self.channels._value[0].name == self.channels._value[1].name else 2)'),
             ('each-channel-name-maps-to-its-dataset-name-else-its-own-name',
              'result[self.channels._value[1].name] == (self.channels._value[1]._dataset_name if self.channels._value[1]._dataset_name is not None else self.channels._value[1].name)')]),
 'ChannelItem._compare_element_limit_vs_dimension': dict(
    props=['C08'], inline_in_callers=True, params={'el': 'list[int]*2', 'dim': 'oneof[list[int]*1,list[int]*2,list[int]*3]'}, returns='bool',
    ensures=[('element-limit-bounds-the-dimension-component-wise',
              'result == (len(dim) <= 2 and dim[0] <= el[0] and (len(dim) < 2 or dim[1] <= el[1]))')]),
})

DIMV = 'oneof[none,list[int]*1,list[int]*2]'
DA = lambda: {'cls': 'Attribute', 'fields': {'_value': DIMV}}
CONTRACTS['ChannelItem._run_checks_and_set_defaults'] = dict(
    props=['C05', 'C08', 'C14'],
    self_fields={'name': 'str', 'element_limit': DA(), 'dimension': DA(), 'long_name': {'cls': 'Attribute', 'fields': {'_value': 'oneof[none,str]'}}},
    params={}, returns='none',
    stubs={'_check_axis_vs_dimension': dict(returns='none', raises=True), 'value.setter': dict(returns='none', capture=True, assign_first_arg_to='_value')},
    may_raise=['RuntimeError', 'StubException'],
    # frame (C05, C14): the documented write-time defaults and nothing else
    modifies=['self.element_limit._value', 'self.dimension._value', 'self.long_name._value'],
    exc_modifies=['self.element_limit._value', 'self.dimension._value', 'self.long_name._value'],
    ensures=[('dimension-given-by-the-user-is-kept', 'implies(old(self.dimension._value) is not None and len(old(self.dimension._value)) > 0, self.dimension._value == old(self.dimension._value))'),
             ('element-limit-given-by-the-user-is-kept', 'implies(old(self.element_limit._value) is not None and len(old(self.element_limit._value)) > 0, self.element_limit._value == old(self.element_limit._value))'),
             ('long-name-given-by-the-user-is-kept', 'implies(old(self.long_name._value) is not None and len(old(self.long_name._value)) > 0, self.long_name._value == old(self.long_name._value))'),
             # the same clause for the one remaining user value, the empty text (kept apart so that the open finding on it cannot hide
             # a violation for non-empty names)
             ('empty-long-name-given-by-the-user-is-kept@C05', 'implies(old(self.long_name._value) is not None and len(old(self.long_name._value)) == 0, self.long_name._value == old(self.long_name._value))'),
             ('default-long-name-is-the-channel-name', 'implies(old(self.long_name._value) is None, self.long_name._value == self.name)'),
             ('default-element-limit-is-the-dimension', 'implies(old(self.element_limit._value) is None and old(self.dimension._value) is not None and len(old(self.dimension._value)) > 0, self.element_limit._value == old(self.dimension._value))')])
