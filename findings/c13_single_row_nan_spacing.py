"""Witness for the open finding P9b (C13): an indexed frame with a single row: SPACING is NaN instead of absent.  Exit 1 while it reproduces."""
import sys, math
import numpy as np
from dliswriter.logical_record.eflr_types.frame import FrameItem
s, d = FrameItem._compute_spacing_and_direction(np.array([5.0]))
print('spacing', s, 'direction', d)
sys.exit(1 if (s is not None and isinstance(float(s), float) and math.isnan(float(s))) else 0)
