"""Witness for the open finding P9a (C13): a decreasing index of an unsigned dtype: np.diff wraps around, SPACING is written as a huge
positive number and no DIRECTION.  Exit 1 while it reproduces."""
import sys
import numpy as np
from dliswriter.logical_record.eflr_types.frame import FrameItem
s, d = FrameItem._compute_spacing_and_direction(np.array([9, 7, 5, 3], dtype=np.uint8))
print('spacing', s, 'direction', d)
sys.exit(1 if (s is not None and float(s) != -2.0) else 0)
