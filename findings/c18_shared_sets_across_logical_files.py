"""Witness for the open finding P14 (C18): two logical files that use the same (default) set name for a set type share ONE set object of the
physical file: both logical files then contain the objects of both.  Exit 1 while it reproduces (no rejection, shared set)."""
import sys
from dliswriter import DLISFile
df = DLISFile()
lf1 = df.add_logical_file(fh_id='LF1'); lf2 = df.add_logical_file(fh_id='LF2')
lf1.add_origin('O1', file_set_number=1, set_name='OS1'); lf2.add_origin('O2', file_set_number=1, set_name='OS2')
try:
    z1 = lf1.add_zone('Z1'); z2 = lf2.add_zone('Z2')
except Exception as e:
    print('rejected:', type(e).__name__); sys.exit(0)
names1 = [z.name for z in lf1._eflr_sets.get_all_items_for_set_type(type(z1.parent))]
print('zones reachable from logical file 1:', names1)
sys.exit(1 if 'Z2' in names1 else 0)
