"""Witness for the open finding P12 (C07): two sets of one type (different set names) in one logical file; same-named objects in both
get copy number 0 and the same origin - duplicate identity.  Exit 1 while it reproduces."""
import sys
from dliswriter import DLISFile
df = DLISFile(); lf = df.add_logical_file(); lf.add_origin('O', file_set_number=1)
a = lf.add_channel('A'); b = lf.add_channel('A', set_name='S2')
ida = (a.parent.set_type, a.origin_reference, a.copy_number, a.name)
idb = (b.parent.set_type, b.origin_reference, b.copy_number, b.name)
print(ida, idb)
sys.exit(1 if ida == idb else 0)
