"""API-level scenario functions: small client programs over the public API (DLISFile / LogicalFile.add_*), executed symbolically with
the real code of the whole call chain inlined."""
from dliswriter import DLISFile, AttrSetup, high_compatibility_mode, high_compatibility_mode_decorator   # noqa: F401
from dliswriter.configuration import global_config                                                       # noqa: F401
from dliswriter.logical_record.eflr_types.zone import ZoneSet, ZoneItem                                  # noqa: F401


def scenario_identity_of_same_named_channels(name):
    df = DLISFile()
    lf = df.add_logical_file()
    lf.add_origin('ORIGIN', file_set_number=1)
    a = lf.add_channel(name)
    b = lf.add_channel(name)
    return a.copy_number, b.copy_number, a.origin_reference, b.origin_reference, lf.default_origin_reference, len(lf.channels)


def scenario_rejected_add_then_valid_add(name):
    df = DLISFile()
    lf = df.add_logical_file()
    lf.add_origin('ORIGIN', file_set_number=1)
    rejected = False
    try:
        lf.add_zone(name, domain='NOT-A-DOMAIN')
    except ValueError:
        rejected = True
    z = lf.add_zone(name)
    return rejected, z.copy_number, len(list(lf._eflr_sets.get_all_items_for_set_type(ZoneSet)))


def scenario_identity_after_origin_back_fill(name):
    # two same-named channels whose origins differ at creation and coincide once the first origin (reference 3) is added
    df = DLISFile()
    lf = df.add_logical_file()
    a = lf.add_channel(name)
    b = lf.add_channel(name, origin_reference=3)
    o = lf.add_origin('ORIGIN', file_set_number=1, origin_reference=3)
    return a.origin_reference, a.copy_number, b.origin_reference, b.copy_number, o.origin_reference


def scenario_rejected_origin_then_valid_origin(name):
    # objects created before any origin; a rejected add_origin; then the real first origin
    df = DLISFile()
    lf = df.add_logical_file()
    ch = lf.add_channel(name)
    rejected = False
    try:
        lf.add_origin('BAD', file_set_number=1, origin_reference=7, file_type=['A', 'B'])
    except TypeError:
        rejected = True
    o = lf.add_origin('ORIGIN', file_set_number=1)
    return rejected, ch.origin_reference, o.origin_reference, lf.file_header.origin_reference, len(lf.origins)


def scenario_attrsetup_with_falsy_value(name):
    df = DLISFile()
    lf = df.add_logical_file()
    lf.add_origin('ORIGIN', file_set_number=1)
    e = lf.add_equipment(name, height=AttrSetup(0, 'm'), length={'value': 0, 'units': 'm'}, weight=0)
    return e.height.value, e.height.units, e.length.value, e.length.units, e.weight.value


def scenario_representation_code_follows_the_current_value(name):
    df = DLISFile()
    lf = df.add_logical_file()
    lf.add_origin('ORIGIN', file_set_number=1)
    p = lf.add_parameter(name, values=['TEXT'])
    first = p.values.representation_code
    p.values.value = [5]
    second = p.values.representation_code
    return first, second


def scenario_first_origin_carries_the_header_id(header_id):
    df = DLISFile()
    lf = df.add_logical_file(fh_id=header_id)
    o = lf.add_origin('ORIGIN', file_set_number=1, origin_reference=5)
    o2 = lf.add_origin('SECOND', file_set_number=1)
    return o.file_id.value, lf.file_header.header_id, lf.defining_origin is o, o.origin_reference, o2.origin_reference


def scenario_names_in_and_outside_the_mode(name):
    df = DLISFile()
    lf = df.add_logical_file()
    lf.add_origin('ORIGIN', file_set_number=1)
    outside = lf.add_channel(name)
    raised = False
    try:
        with high_compatibility_mode():
            lf.add_channel(name)
    except ValueError:
        raised = True
    return raised, global_config.high_compat_mode, len(lf.channels)


def scenario_rejected_channel_keeps_no_data(name, arr):
    df = DLISFile()
    lf = df.add_logical_file()
    lf.add_origin('ORIGIN', file_set_number=1)
    rejected = False
    try:
        lf.add_channel(name, data=arr, units=['m', 'ft'])
    except TypeError:
        rejected = True
    ch = lf.add_channel(name)
    return rejected, len(lf._data_dict), ch.copy_number, ch.dataset_name


def scenario_two_logical_files_with_their_own_sets(name):
    df = DLISFile()
    lf1 = df.add_logical_file()
    lf2 = df.add_logical_file()
    lf1.add_origin('O1', file_set_number=1, set_name='A')
    lf2.add_origin('O2', file_set_number=1, set_name='B')
    c1 = lf1.add_channel(name, set_name='A')
    c2 = lf2.add_channel(name, set_name='B')
    return (len(lf1.channels), len(lf2.channels), lf1.channels[0] is c1, lf2.channels[0] is c2, c1.copy_number, c2.copy_number,
            df.logical_files[0] is lf1, df.logical_files[1] is lf2, len(lf1.origins), len(lf2.origins))


def scenario_rejected_frame_leaves_no_frame(name):
    df = DLISFile()
    lf = df.add_logical_file()
    lf.add_origin('ORIGIN', file_set_number=1)
    ch = lf.add_channel(name)
    rejected = False
    try:
        lf.add_frame(name, channels=[])
    except ValueError:
        rejected = True
    fr = lf.add_frame(name, channels=[ch])
    return rejected, len(lf.frames), fr.copy_number, fr.channels.value[0] is ch


def scenario_values_assigned_at_creation_and_later(name, text):
    df = DLISFile()
    lf = df.add_logical_file()
    lf.add_origin('ORIGIN', file_set_number=1)
    t = lf.add_tool(name, description=text, trademark_name='TM', generic_name='GEN')
    z = lf.add_zone(name)
    z.description.value = text
    e = lf.add_equipment(name)
    e.height.value = 3
    e.height.units = 'm'
    return t.description.value, t.trademark_name.value, t.generic_name.value, z.description.value, e.height.value, e.height.units, t.status.value


def scenario_long_name_text_then_object(name, text):
    df = DLISFile()
    lf = df.add_logical_file()
    lf.add_origin('ORIGIN', file_set_number=1)
    ch = lf.add_channel(name, long_name=text)
    first = ch.long_name.representation_code
    ln = lf.add_long_name(name)
    ch.long_name.value = ln
    second = ch.long_name.representation_code
    return first, second, ch.long_name.value is ln


def scenario_no_format_records_per_logical_file_in_order(name, p1, p2, p3):
    df = DLISFile()
    lf1 = df.add_logical_file()
    lf2 = df.add_logical_file()
    lf1.add_origin('O1', file_set_number=1, set_name='A')
    lf2.add_origin('O2', file_set_number=1, set_name='B')
    a = lf1.add_no_format(name, set_name='A')
    b = lf1.add_no_format(name + '-B', set_name='A')
    d1 = lf1.add_no_format_frame_data(a, p1)
    d2 = lf1.add_no_format_frame_data(b, p2)
    d3 = lf1.add_no_format_frame_data(a, p3)
    records = list(df.generator([[], []]))
    tail1 = [r for r in records if r is d1 or r is d2 or r is d3]
    return (len(tail1), tail1[0] is d1, tail1[1] is d2, tail1[2] is d3, d1.no_format_object is a, d2.no_format_object is b, d3.no_format_object is a,
            d1.data, len(lf2._no_format_frame_data))
