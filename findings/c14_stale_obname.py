"""Witness for an open finding (C14): EFLRItem.obname is a cached_property that is never invalidated: after the first write, changing the
origin reference (or name) of an object leaves the old bytes in every later file.  Exit 1 while it reproduces."""
import sys
from dliswriter import DLISFile
df = DLISFile(); lf = df.add_logical_file(); lf.add_origin('O', file_set_number=1)
c = lf.add_channel('A')
first = c.obname
c.origin_reference = 5
second = c.obname
print(first, second)
sys.exit(1 if second == first else 0)
