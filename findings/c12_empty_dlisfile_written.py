"""Regression witness (C12 "no origin, channels or frames - raise an exception"): DLISFile().write(path) with no logical file at all
returned normally and produced a file holding only the 80-byte storage unit label.  Exit 1 while it reproduces."""
import os
import sys
import tempfile
from dliswriter import DLISFile
d = tempfile.mkdtemp(); p = os.path.join(d, 'x.dlis')
try:
    try:
        DLISFile().write(p)
        print('written without any logical file:', os.path.getsize(p), 'bytes')
        rc = 1
    except RuntimeError as e:
        print('rejected:', e)
        rc = 0
finally:
    os.path.exists(p) and os.remove(p); os.rmdir(d)
sys.exit(rc)
