"""Source-level stand-ins for plain record-like library objects whose relevant attributes a contract wants to fix concretely."""


class StructuredDTypeRecord:
    """a numpy structured dtype seen only through its attributes (names, ...) - given concretely by a contract's shape"""
