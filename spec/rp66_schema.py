"""RP66 V1 object-type table (chapters 5 and 6, appendix A), written from the standard - NOT extracted from the library.

Per set type: the explicitly formatted logical record type (appendix A: 0 FHLR, 1 OLR, 2 AXIS, 3 CHANNL, 4 FRAME, 5 STATIC, 6 SCRIPT,
7 UPDATE, 8 UDI, 9 LNAME) and, in the order of the standard's attribute tables, for every attribute:
    (label, count class, representation code restriction, referenced object type)
count class   '1' = a single value (C=1)         '*' = any number of values
code          a fixed code name, or None when the standard allows several ("any numeric", OBNAME-or-ASCII, ...), in which case the
              writer picks the code from the value
reference     the object type an OBNAME value must refer to (None = no reference or any type)

Deviations of the library that are deliberate and documented there (kept in the table so that they stay pinned, marked #dev):
  * CHANNEL has MINIMUM-VALUE / MAXIMUM-VALUE after SOURCE (extension used by some producers)                          #dev
  * UNITS-coded attributes (CHANNEL.UNITS) are written with IDENT: same byte layout, code 19 instead of 27             #dev
  * FRAME.ENCRYPTED is written as a USHORT 0/1 value                                                                   #dev
"""
ONE, MANY = '1', '*'

SCHEMA = {
    'FILE-HEADER': (0, None),      # two fixed-width ASCII attributes, hand-written in the library (checked by the C09 contracts)
    'ORIGIN': (1, [
        ('FILE-ID', ONE, 'ASCII', None), ('FILE-SET-NAME', ONE, 'IDENT', None), ('FILE-SET-NUMBER', ONE, 'UVARI', None),
        ('FILE-NUMBER', ONE, 'UVARI', None), ('FILE-TYPE', ONE, 'IDENT', None), ('PRODUCT', ONE, 'ASCII', None),
        ('VERSION', ONE, 'ASCII', None), ('PROGRAMS', MANY, 'ASCII', None), ('CREATION-TIME', ONE, 'DTIME', None),
        ('ORDER-NUMBER', ONE, 'ASCII', None), ('DESCENT-NUMBER', ONE, 'UNORM', None), ('RUN-NUMBER', ONE, 'UNORM', None),
        ('WELL-ID', ONE, 'ASCII', None), ('WELL-NAME', ONE, 'ASCII', None), ('FIELD-NAME', ONE, 'ASCII', None),
        ('PRODUCER-CODE', ONE, 'UNORM', None), ('PRODUCER-NAME', ONE, 'ASCII', None), ('COMPANY', ONE, 'ASCII', None),
        ('NAME-SPACE-NAME', ONE, 'IDENT', None), ('NAME-SPACE-VERSION', ONE, 'UVARI', None)]),
    'WELL-REFERENCE': (1, [
        ('PERMANENT-DATUM', ONE, 'ASCII', None), ('VERTICAL-ZERO', ONE, 'ASCII', None), ('PERMANENT-DATUM-ELEVATION', ONE, 'FDOUBL', None),
        ('ABOVE-PERMANENT-DATUM', ONE, 'FDOUBL', None), ('MAGNETIC-DECLINATION', ONE, 'FDOUBL', None),
        ('COORDINATE-1-NAME', ONE, 'ASCII', None), ('COORDINATE-1-VALUE', ONE, 'FDOUBL', None),
        ('COORDINATE-2-NAME', ONE, 'ASCII', None), ('COORDINATE-2-VALUE', ONE, 'FDOUBL', None),
        ('COORDINATE-3-NAME', ONE, 'ASCII', None), ('COORDINATE-3-VALUE', ONE, 'FDOUBL', None)]),
    'AXIS': (2, [('AXIS-ID', ONE, 'IDENT', None), ('COORDINATES', MANY, None, None), ('SPACING', ONE, None, None)]),
    'CHANNEL': (3, [
        ('LONG-NAME', ONE, None, 'LONG-NAME'), ('PROPERTIES', MANY, 'IDENT', None), ('REPRESENTATION-CODE', ONE, 'USHORT', None),
        ('UNITS', ONE, 'IDENT', None), ('DIMENSION', MANY, 'UVARI', None), ('AXIS', MANY, 'OBNAME', 'AXIS'),
        ('ELEMENT-LIMIT', MANY, 'UVARI', None), ('SOURCE', ONE, 'OBJREF', None),
        ('MINIMUM-VALUE', MANY, 'FDOUBL', None), ('MAXIMUM-VALUE', MANY, 'FDOUBL', None)]),
    'FRAME': (4, [
        ('DESCRIPTION', ONE, 'ASCII', None), ('CHANNELS', MANY, 'OBNAME', 'CHANNEL'), ('INDEX-TYPE', ONE, 'IDENT', None),
        ('DIRECTION', ONE, 'IDENT', None), ('SPACING', ONE, None, None), ('ENCRYPTED', ONE, 'USHORT', None),
        ('INDEX-MIN', ONE, None, None), ('INDEX-MAX', ONE, None, None)]),
    'PATH': (4, [
        ('FRAME-TYPE', ONE, 'OBNAME', 'FRAME'), ('WELL-REFERENCE-POINT', ONE, 'OBNAME', 'WELL-REFERENCE'), ('VALUE', MANY, 'OBNAME', 'CHANNEL'),
        ('BOREHOLE-DEPTH', ONE, None, None), ('VERTICAL-DEPTH', ONE, None, None), ('RADIAL-DRIFT', ONE, None, None),
        ('ANGULAR-DRIFT', ONE, None, None), ('TIME', ONE, None, None), ('DEPTH-OFFSET', ONE, None, None),
        ('MEASURE-POINT-OFFSET', ONE, None, None), ('TOOL-ZERO-OFFSET', ONE, None, None)]),
    'ZONE': (5, [('DESCRIPTION', ONE, 'ASCII', None), ('DOMAIN', ONE, 'IDENT', None), ('MAXIMUM', ONE, None, None), ('MINIMUM', ONE, None, None)]),
    'PARAMETER': (5, [
        ('LONG-NAME', ONE, None, 'LONG-NAME'), ('DIMENSION', MANY, 'UVARI', None), ('AXIS', MANY, 'OBNAME', 'AXIS'),
        ('ZONES', MANY, 'OBNAME', 'ZONE'), ('VALUES', MANY, None, None)]),
    'EQUIPMENT': (5, [
        ('TRADEMARK-NAME', ONE, 'ASCII', None), ('STATUS', ONE, 'STATUS', None), ('TYPE', ONE, 'IDENT', None), ('SERIAL-NUMBER', ONE, 'IDENT', None),
        ('LOCATION', ONE, 'IDENT', None), ('HEIGHT', ONE, None, None), ('LENGTH', ONE, None, None), ('MINIMUM-DIAMETER', ONE, None, None),
        ('MAXIMUM-DIAMETER', ONE, None, None), ('VOLUME', ONE, None, None), ('WEIGHT', ONE, None, None), ('HOLE-SIZE', ONE, None, None),
        ('PRESSURE', ONE, None, None), ('TEMPERATURE', ONE, None, None), ('VERTICAL-DEPTH', ONE, None, None), ('RADIAL-DRIFT', ONE, None, None),
        ('ANGULAR-DRIFT', ONE, None, None)]),
    'TOOL': (5, [
        ('DESCRIPTION', ONE, 'ASCII', None), ('TRADEMARK-NAME', ONE, 'ASCII', None), ('GENERIC-NAME', ONE, 'ASCII', None),
        ('PARTS', MANY, 'OBNAME', 'EQUIPMENT'), ('STATUS', ONE, 'STATUS', None), ('CHANNELS', MANY, 'OBNAME', 'CHANNEL'),
        ('PARAMETERS', MANY, 'OBNAME', 'PARAMETER')]),
    'PROCESS': (5, [
        ('DESCRIPTION', ONE, 'ASCII', None), ('TRADEMARK-NAME', ONE, 'ASCII', None), ('VERSION', ONE, 'ASCII', None),
        ('PROPERTIES', MANY, 'IDENT', None), ('STATUS', ONE, 'IDENT', None), ('INPUT-CHANNELS', MANY, 'OBNAME', 'CHANNEL'),
        ('OUTPUT-CHANNELS', MANY, 'OBNAME', 'CHANNEL'), ('INPUT-COMPUTATIONS', MANY, 'OBNAME', 'COMPUTATION'),
        ('OUTPUT-COMPUTATIONS', MANY, 'OBNAME', 'COMPUTATION'), ('PARAMETERS', MANY, 'OBNAME', 'PARAMETER'), ('COMMENTS', MANY, 'ASCII', None)]),
    'COMPUTATION': (5, [
        ('LONG-NAME', ONE, None, 'LONG-NAME'), ('PROPERTIES', MANY, 'IDENT', None), ('DIMENSION', MANY, 'UVARI', None),
        ('AXIS', MANY, 'OBNAME', 'AXIS'), ('ZONES', MANY, 'OBNAME', 'ZONE'), ('VALUES', MANY, None, None), ('SOURCE', ONE, 'OBNAME', None)]),
    'CALIBRATION-MEASUREMENT': (5, [
        ('PHASE', ONE, 'IDENT', None), ('MEASUREMENT-SOURCE', ONE, 'OBJREF', None), ('TYPE', ONE, 'IDENT', None), ('DIMENSION', MANY, 'UVARI', None),
        ('AXIS', MANY, 'OBNAME', 'AXIS'), ('MEASUREMENT', MANY, None, None), ('SAMPLE-COUNT', ONE, None, None), ('MAXIMUM-DEVIATION', MANY, None, None),
        ('STANDARD-DEVIATION', MANY, None, None), ('BEGIN-TIME', ONE, None, None), ('DURATION', ONE, None, None), ('REFERENCE', MANY, None, None),
        ('STANDARD', MANY, None, None), ('PLUS-TOLERANCE', MANY, None, None), ('MINUS-TOLERANCE', MANY, None, None)]),
    'CALIBRATION-COEFFICIENT': (5, [
        ('LABEL', ONE, 'IDENT', None), ('COEFFICIENTS', MANY, None, None), ('REFERENCES', MANY, None, None),
        ('PLUS-TOLERANCES', MANY, None, None), ('MINUS-TOLERANCES', MANY, None, None)]),
    'CALIBRATION': (5, [
        ('CALIBRATED-CHANNELS', MANY, 'OBNAME', 'CHANNEL'), ('UNCALIBRATED-CHANNELS', MANY, 'OBNAME', 'CHANNEL'),
        ('COEFFICIENTS', MANY, 'OBNAME', 'CALIBRATION-COEFFICIENT'), ('MEASUREMENTS', MANY, 'OBNAME', 'CALIBRATION-MEASUREMENT'),
        ('PARAMETERS', MANY, 'OBNAME', 'PARAMETER'), ('METHOD', ONE, 'IDENT', None)]),
    'GROUP': (5, [
        ('DESCRIPTION', ONE, 'ASCII', None), ('OBJECT-TYPE', ONE, 'IDENT', None), ('OBJECT-LIST', MANY, 'OBJREF', None),
        ('GROUP-LIST', MANY, 'OBNAME', 'GROUP')]),
    'SPLICE': (5, [('OUTPUT-CHANNEL', ONE, 'OBNAME', 'CHANNEL'), ('INPUT-CHANNELS', MANY, 'OBNAME', 'CHANNEL'), ('ZONES', MANY, 'OBNAME', 'ZONE')]),
    'MESSAGE': (6, [
        ('TYPE', ONE, 'IDENT', None), ('TIME', ONE, None, None), ('BOREHOLE-DRIFT', ONE, None, None), ('VERTICAL-DEPTH', ONE, None, None),
        ('RADIAL-DRIFT', ONE, None, None), ('ANGULAR-DRIFT', ONE, None, None), ('TEXT', MANY, 'ASCII', None)]),
    'COMMENT': (6, [('TEXT', MANY, 'ASCII', None)]),
    'NO-FORMAT': (8, [('CONSUMER-NAME', ONE, 'IDENT', None), ('DESCRIPTION', ONE, 'ASCII', None)]),
    'LONG-NAME': (9, [
        ('GENERAL-MODIFIER', MANY, 'ASCII', None), ('QUANTITY', ONE, 'ASCII', None), ('QUANTITY-MODIFIER', MANY, 'ASCII', None),
        ('ALTERED-FORM', ONE, 'ASCII', None), ('ENTITY', ONE, 'ASCII', None), ('ENTITY-MODIFIER', MANY, 'ASCII', None),
        ('ENTITY-NUMBER', ONE, 'ASCII', None), ('ENTITY-PART', ONE, 'ASCII', None), ('ENTITY-PART-NUMBER', ONE, 'ASCII', None),
        ('GENERIC-SOURCE', ONE, 'ASCII', None), ('SOURCE-PART', MANY, 'ASCII', None), ('SOURCE-PART-NUMBER', MANY, 'ASCII', None),
        ('CONDITIONS', MANY, 'ASCII', None), ('STANDARD-SYMBOL', ONE, 'ASCII', None), ('PRIVATE-SYMBOL', ONE, 'ASCII', None)]),
}


# RP66 V1 appendix B (representation codes: number and, for the fixed-size ones, the big-endian layout) and appendix A (record types)
REPRESENTATION_CODES = {
    'FSHORT': (1, '>h'), 'FSINGL': (2, '>f'), 'FSING1': (3, '>ff'), 'FSING2': (4, '>fff'), 'ISINGL': (5, '>i'), 'VSINGL': (6, '>i'),
    'FDOUBL': (7, '>d'), 'FDOUB1': (8, '>dd'), 'FDOUB2': (9, '>ddd'), 'CSINGL': (10, '>ff'), 'CDOUBL': (11, '>dd'),
    'SSHORT': (12, '>b'), 'SNORM': (13, '>h'), 'SLONG': (14, '>i'), 'USHORT': (15, '>B'), 'UNORM': (16, '>H'), 'ULONG': (17, '>I'),
    'UVARI': (18, None), 'IDENT': (19, None), 'ASCII': (20, None), 'DTIME': (21, '>BBBBBBH'), 'ORIGIN': (22, None), 'OBNAME': (23, None),
    'OBJREF': (24, None), 'ATTREF': (25, None), 'STATUS': (26, '>B')}
EFLR_TYPES = {'FHLR': 0, 'OLR': 1, 'AXIS': 2, 'CHANNL': 3, 'FRAME': 4, 'STATIC': 5, 'SCRIPT': 6, 'UPDATE': 7, 'UDI': 8, 'LNAME': 9, 'SPEC': 10, 'DICT': 11}
IFLR_TYPES = {'FDATA': 0, 'NOFORM': 1, 'NOFMT': 1, 'EOD': 127}      # NOFMT: the library's name for NOFORM


def compare_enums(enums):
    diffs = []
    rc = enums.get('RepresentationCode', {})
    for name, (num, fmt) in REPRESENTATION_CODES.items():
        if name not in rc:
            diffs.append(f'RepresentationCode.{name}: missing')
        else:
            if rc[name][0] != num:
                diffs.append(f'RepresentationCode.{name}: code {rc[name][0]} instead of {num}')
            if fmt is not None and rc[name][1] != fmt:
                diffs.append(f'RepresentationCode.{name}: layout {rc[name][1]} instead of {fmt}')
    for name in rc:
        if name not in REPRESENTATION_CODES and name != 'UNITS':
            diffs.append(f'RepresentationCode.{name}: not a code of RP66 V1')
    for en, table in (('EFLRType', EFLR_TYPES), ('IFLRType', IFLR_TYPES)):
        got = enums.get(en, {})
        for name, val in got.items():
            if name in table and val[0] != table[name]:
                diffs.append(f'{en}.{name}: {val[0]} instead of {table[name]}')
            if name not in table:
                diffs.append(f'{en}.{name}: not a record type of RP66 V1')
    return diffs


def compare(dumped):
    """differences between the schema the library builds (spec/dump_schema.py) and the table above, as a list of texts"""
    diffs = []
    dumped = {k: v for k, v in dumped.items() if not k.startswith('__')}
    for st in sorted(set(SCHEMA) | set(dumped)):
        if st not in dumped:
            diffs.append(f'{st}: set type of the standard not provided by the library')
            continue
        if st not in SCHEMA:
            diffs.append(f'{st}: set type not in the RP66 table')
            continue
        lrtype, attrs = SCHEMA[st]
        d = dumped[st]
        if d['lrtype'] != lrtype:
            diffs.append(f"{st}: logical record type {d['lrtype']} instead of {lrtype}")
        if not d.get('is_eflr', True):
            diffs.append(f'{st}: not flagged as explicitly formatted')
        if attrs is None:
            continue
        got = d.get('attrs')
        if got is None:
            diffs.append(f'{st}: the item class could not be instantiated to read its schema')
            continue
        if [a['label'] for a in got] != [a[0] for a in attrs]:
            diffs.append(f"{st}: template labels {[a['label'] for a in got]} instead of {[a[0] for a in attrs]}")
            continue
        for g, (label, cnt, code, ref) in zip(got, attrs):
            if g['many'] != (cnt == MANY):
                diffs.append(f"{st}.{label}: {'multi' if g['many'] else 'single'}-valued instead of count class {cnt}")
            if g['code'] != code:
                diffs.append(f"{st}.{label}: fixed representation code {g['code']} instead of {code}")
            if g['ref'] != ref and not (ref is None and g['ref'] in (None, 'NotImplemented')):
                diffs.append(f"{st}.{label}: refers to objects of type {g['ref']} instead of {ref}")
    return diffs
