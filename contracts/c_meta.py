"""Contracts: metadata fidelity (C05): routing of user values to attribute state; write-time defaults; C13 frame index metadata;
C14 cache soundness."""
from contracts.c_attr import ATTR_FIELDS, RC

OPQ_MODELS = {'uval': {'__isinstance__': {'dict': False, 'AttrSetup': False, 'list': False, 'tuple': False}}}    # a user value: not None unless stated, truthiness unknown (0, '', 0.0 are values)

CONTRACTS = {}
for _v in ('none', 'opq:uval'):
    for _u in ('none', 'opq:uval'):
        exp = []
        if _v != 'none':
            exp.append("('value', self.value)")
        if _u != 'none':
            exp.append("('units', self.units)")
        CONTRACTS[f'AttrSetup.items[value={_v != "none"},units={_u != "none"}]'] = dict(
            target='AttrSetup.items', props=['C05', 'C13', 'C12'], self_fields={'value': _v, 'units': _u}, params={}, returns='none',
            requires=(['self.value is not None'] if _v != 'none' else []) + (['self.units is not None'] if _u != 'none' else []),
            ensures=[('every-part-that-was-given-is-forwarded-even-if-falsy', '__out__ == (' + ''.join(e + ', ' for e in exp) + ')')])

SPEC_UFS = {'converted': (('opq', 'opq'), 'opq'), 'unit_text': (('opq',), 'opq'), 'rejects_value': (('opq', 'opq'), 'bool'), 'rejects_units': (('opq', 'opq'), 'bool')}
A2 = {'cls': 'Attribute', 'fields': {'_value': 'opq:stored', '_units': 'opq:stored'}}
CONTRACTS.update({
 # summaries of the attribute setters (the converters themselves are per-subtype functions; their contracts are separate)
 'Attribute.value.setter': dict(
    props=[], axiom=True, kind='set', target='Attribute.value', params={'val': 'opq:uval'}, returns='none', modifies=['self._value'],
    self_fields={'_value': 'opq:stored'},
    raises={'AnyException': 'rejects_value(self, val)'},
    # converters map a value to a value (only None to None): assumed here, the per-subtype converter contracts are separate
    ensures=['self._value == converted(self, val)', 'implies(val is not None, self._value is not None)']),
 'Attribute.units.setter': dict(
    props=[], axiom=True, kind='set', target='Attribute.units', params={'units': 'opq:uval'}, returns='none', modifies=['self._units'],
    self_fields={'_units': 'opq:stored'},
    # what is stored is what the unit checker returns for the given units (the text of a Unit member, else the value itself): the
    # verified setter proves _units == checker(units); unit_text names that result
    raises={'AnyException': 'rejects_units(self, units)'}, ensures=['self._units == unit_text(units)']),
})
ROUTES = {
    'plain-value': ("{'first': 'opq:uval'}", ["self.first._value == converted(self.first, kwargs['first'])", 'self.first._units is old(self.first._units)']),
    'attrsetup-value-and-units': ({'first': {'cls': 'AttrSetup', 'fields': {'value': 'opq:uval', 'units': 'opq:uval'}}},
                                  ["self.first._value == converted(self.first, kwargs['first'].value)", "self.first._units == unit_text(kwargs['first'].units)"]),
    'dict-value-and-units': ({'first': 'dict{value:opq:uval,units:opq:uval}'},
                             ["self.first._value == converted(self.first, kwargs['first']['value'])", "self.first._units == unit_text(kwargs['first']['units'])"]),
    'two-attributes': ({'second': 'opq:uval', 'first': 'opq:uval'},
                       ["self.first._value == converted(self.first, kwargs['first'])", "self.second._value == converted(self.second, kwargs['second'])"]),
}
for _nm, (_kw, _ens) in ROUTES.items():
    if isinstance(_kw, str):
        _kw = eval(_kw)
    CONTRACTS[f'EFLRItem.set_attributes[{_nm}]'] = dict(
        target='EFLRItem.set_attributes', self_class='ZoneItem', props=['C05', 'C13'],
        self_fields={'name': 'str', 'first': A2, 'second': A2, 'third': A2}, params={'kwargs': _kw}, returns='none',
        requires=["kwargs['first'].value is not None and kwargs['first'].units is not None"] if _nm.startswith('attrsetup') else [],
        may_raise=['AnyException'],
        ensures=[(f'routed-{i}', e) for i, e in enumerate(_ens)] +
                [('attributes-not-named-stay-untouched', 'self.third._value is old(self.third._value) and self.third._units is old(self.third._units)')])
CONTRACTS['EFLRItem.set_attributes[unknown-name]'] = dict(
    target='EFLRItem.set_attributes', self_class='ZoneItem', props=['C05', 'C12'],
    self_fields={'name': 'str', 'first': A2}, params={'kwargs': {'no_such_attribute': 'opq:uval'}}, returns='none',
    raises={'AttributeError': 'True'}, ensures=[])
OPQ_MODELS['stored'] = {'__isinstance__': {}}
OPQ_MODELS['npfloat'] = {'__isinstance__': {'Number': True, 'numbers.Number': True, 'float': False, 'int': False, 'np.floating': None, 'np.generic': None},
                         'is_integer': 'method:bool', 'dtype': 'opq:dtype', 'itemsize': 'int:nat', 'nbytes': 'int:nat'}
OPQ_MODELS['scalar'] = {'__isinstance__': {}, '__notnone__': True}

CONTRACTS['Attribute.representation_code'] = dict(
    props=['C05', 'C14'], kind='get', inline_in_callers=True, self_fields={'_representation_code': f'enumv:{RC}?', '_value': 'opq:stored'}, params={}, returns=f'enumv:{RC}?',
    stubs={'inferred_representation_code': dict(returns=f'enumv:{RC}?', raises=True, pure=True)},
    ensures=[('explicit-code-else-the-code-inferred-from-the-CURRENT-value',
              'result == (self._representation_code if self._representation_code is not None else self.inferred_representation_code)'),
             ('reading-the-code-does-not-change-the-specification', 'self._representation_code == old(self._representation_code) and self._value is old(self._value)')])

# ---------------------------------------------------------------------------------------------- C13: frame index metadata
from contracts.c_compat import GC, FLAG
AT = {'cls': 'Attribute', 'fields': {'_value': 'opq:stored', '_units': 'opq:stored', '_label': 'str'}}
ICH = {'cls': 'ChannelItem', 'fields': {'name': 'str', 'units': AT}}
FRAME_FIELDS = {'name': 'str', 'channels': {'cls': 'Attribute', 'fields': {'_value': {'list': [ICH, ICH]}}},
                'index_type': AT, 'spacing': AT, 'index_min': AT, 'index_max': AT, 'direction': AT}
KEEP = lambda a: (f'user-supplied-{a}-is-written-unchanged', f'implies(old(self.{a}._value) is not None, self.{a}._value is old(self.{a}._value))')
IDX = "data_index[:]"
KRN = f"self._compute_spacing_and_direction({IDX})"
CONTRACTS['FrameItem._setup_frame_params_from_data'] = dict(
    props=['C13', 'C17', 'C05'], globals=GC, self_fields=FRAME_FIELDS,
    params={'data': {'cls': 'SourceDataWrapper', 'fields': {}}}, returns='none',
    closure={'data_index': 'opq:ndarray'},
    stubs={'__getitem__': dict(returns_expr='data_index', pure=True),
           '_compute_spacing_and_direction': dict(returns='tuple[oneof[none,opq:scalar],oneof[none,bool]]', pure=True)},
    may_raise=['AnyException'],
    # frame (C13, C14): the only write-time additions are the index bounds, spacing, direction and the units of the three numeric ones
    modifies=[f'self.{a}.{f}' for a in ('index_min', 'index_max', 'spacing') for f in ('_value', '_units')] + ['self.direction._value'],
    exc_modifies=[f'self.{a}.{f}' for a in ('index_min', 'index_max', 'spacing') for f in ('_value', '_units')] + ['self.direction._value'],
    raises={'RuntimeError': f'self.index_type._value is not None and ({IDX}.ndim != 1 or ({FLAG} and self._compute_spacing_and_direction({IDX})[0] is None))'},
    ensures=[KEEP('index_min'), KEEP('index_max'), KEEP('spacing'), KEEP('direction'),
             ('row-number-index-min-is-1', 'implies(self.index_type._value is None and old(self.index_min._value) is None, self.index_min._value == converted(self.index_min, 1))'),
             ('row-number-index-max-is-the-number-of-rows-written', f'implies(self.index_type._value is None and old(self.index_max._value) is None, self.index_max._value == converted(self.index_max, {IDX}.shape[0]))'),
             ('index-min-is-the-minimum-of-the-index-rows-written', f'implies(self.index_type._value is not None and old(self.index_min._value) is None, self.index_min._value == converted(self.index_min, {IDX}.min()))'),
             ('index-max-is-the-maximum-of-the-index-rows-written', f'implies(self.index_type._value is not None and old(self.index_max._value) is None, self.index_max._value == converted(self.index_max, {IDX}.max()))'),
             # what the tolerance kernel decided (K = (uniform step or None, monotonic sense or None)) is what gets written, nothing else
             ('spacing-is-the-uniform-step-when-there-is-one', f'implies(self.index_type._value is not None and old(self.spacing._value) is None and {KRN}[0] is not None, self.spacing._value == converted(self.spacing, {KRN}[0]))'),
             ('spacing-is-absent-when-the-steps-are-not-uniform', f'implies(self.index_type._value is not None and old(self.spacing._value) is None and {KRN}[0] is None, self.spacing._value is None)'),
             ('increasing-sense-is-written-as-INCREASING-when-spacing-is-absent', f'implies(self.index_type._value is not None and old(self.direction._value) is None and {KRN}[0] is None and {KRN}[1] is True, '
                                                                                   f'self.direction._value == converted(self.direction, "INCREASING"))'),
             ('decreasing-sense-is-written-as-DECREASING-when-spacing-is-absent', f'implies(self.index_type._value is not None and old(self.direction._value) is None and {KRN}[0] is None and {KRN}[1] is False, '
                                                                                   f'self.direction._value == converted(self.direction, "DECREASING"))'),
             ('no-direction-without-a-monotonic-sense', f'implies(self.index_type._value is not None and old(self.direction._value) is None and {KRN}[1] is None, self.direction._value is None)')])

# ---------------------------------------------------------------------------------------------- per-subtype converters (C05 step 3)
YES = "('1', 'true', 't', 'yes', 'y')"
NO = "('0', 'false', 'f', 'no', 'n')"
CONTRACTS.update({
 'StatusAttribute.convert_status[int]': dict(
    target='StatusAttribute.convert_status', props=['C05', 'C12'], params={'val': 'int'}, returns='int',
    raises={'ValueError': 'val != 0 and val != 1'}, ensures=[('status-kept', 'result == val')]),
 'StatusAttribute.convert_status[bool]': dict(
    target='StatusAttribute.convert_status', props=['C05'], params={'val': 'bool'}, returns='int',
    ensures=[('true-is-1-false-is-0', 'result == (1 if val else 0)')]),
 # C05 / C06 / C12 "integers outside their code's range ... raise": a status given as a float is the integer it denotes or is rejected -
 # never truncated (0.5 is not 0, 1.5 is not 1)
 'StatusAttribute.convert_status[float]': dict(
    target='StatusAttribute.convert_status', props=['C05', 'C06', 'C12'], params={'val': 'opq:float'}, returns='int',
    raises={'ValueError': 'not float(val).is_integer() or (int(val) != 0 and int(val) != 1)'},
    ensures=[('the-integer-it-denotes', 'result == int(val)')]),
 # ... whatever kind of number it is (np.float32(0.5) is not an instance of float; it used to be truncated to 0 - fix F19)
 'StatusAttribute.convert_status[other-number]': dict(
    target='StatusAttribute.convert_status', props=['C05', 'C06', 'C12'], params={'val': 'opq:npfloat'}, returns='int',
    raises={'ValueError': 'not float(val).is_integer() or (int(val) != 0 and int(val) != 1)'},
    ensures=[('the-integer-it-denotes', 'result == int(val)')]),
 'FrameItem.convert_encrypted[int]': dict(
    target='FrameItem.convert_encrypted', props=['C05', 'C12'], params={'value': 'int'}, returns='int',
    raises={'ValueError': 'value != 0 and value != 1'}, ensures=[('kept', 'result == value')]),
 'FrameItem.convert_encrypted[bool]': dict(
    target='FrameItem.convert_encrypted', props=['C05'], params={'value': 'bool'}, returns='int', ensures=[('flag', 'result == (1 if value else 0)')]),
 'FrameItem.convert_encrypted[str]': dict(
    target='FrameItem.convert_encrypted', props=['C05', 'C12'], params={'value': 'str'}, returns='int',
    raises={'ValueError': f'value.lower() not in {YES} and value.lower() not in {NO}'},
    ensures=[('yes-words-are-1-no-words-are-0', f'result == (1 if value.lower() in {YES} else 0)')]),
 'NumericAttribute._int_parser[int]': dict(
    target='NumericAttribute._int_parser', props=['C05'], params={'value': 'int'}, returns='int', ensures=[('integers-exactly', 'result == value')]),
 # C06 / C12: a fractional number is rejected for an integer code, whatever kind of number it is (python float, numpy scalar,
 # Decimal ...): never truncated.  `npfloat` is a number that is not an instance of the builtin float.
 'NumericAttribute._int_parser[float]': dict(
    target='NumericAttribute._int_parser', props=['C05', 'C06', 'C12'], params={'value': 'opq:float'}, returns='int',
    raises={'ValueError': 'not float(value).is_integer()'}, ensures=[('the-integer-it-denotes', 'result == int(value)')]),
 'NumericAttribute._int_parser[other-number]': dict(
    target='NumericAttribute._int_parser', props=['C05', 'C06', 'C12'], params={'value': 'opq:npfloat'}, returns='int',
    raises={'ValueError': 'not float(value).is_integer()'}, ensures=[('the-integer-it-denotes', 'result == int(value)')]),
 # C05 "date-times ... as the same UTC instant": a datetime object given by the user is stored AS IT IS (aware or naive) - the one and
 # only conversion to UTC happens in write_struct_dtime (C06)
 'DTimeAttribute._convert_value[datetime]': dict(
    target='DTimeAttribute._convert_value', props=['C05', 'C06'], self_fields={'_allow_float': 'bool'}, params={'value': 'opq:datetime'},
    returns='opq:datetime', ensures=[('the-datetime-object-itself-is-stored', 'result is value')]),
 'DTimeAttribute._convert_value[number]': dict(
    target='DTimeAttribute._convert_value', props=['C05', 'C12'], self_fields={'_allow_float': 'bool'}, params={'value': 'int'},
    returns='opq:float', raises={'TypeError': 'not self._allow_float'}, ensures=[('a-number-of-seconds-is-kept-as-that-float', 'result == float(value)')]),
 # C13 / C05: a number given as a numpy float (the min / max of a float32 index channel) is written as the value it has, not as the
 # shorter decimal it prints as (round 7, C13-N: float(str(np.float32(1000.1))) is 1000.1, the rows hold 1000.0999755859375)
 'NumericAttribute._float_parser[npfloat]': dict(
    target='NumericAttribute._float_parser', props=['C05', 'C13'], params={'value': 'opq:npfloat'}, returns='opq:float',
    ensures=[('the-value-it-has-not-the-text-it-prints-as', 'result == float(value)')]),
 'NumericAttribute._float_parser[int]': dict(
    target='NumericAttribute._float_parser', props=['C05'], params={'value': 'int'}, returns='opq:float', ensures=[('the-float-of-the-number', 'result == float(value)')]),
 'TextAttribute._check_string': dict(
    props=['C05', 'C12'], params={'v': 'oneof[str,int]'}, returns='str',
    raises={'TypeError': 'not isinstance(v, str)'}, ensures=[('text-exactly', 'result == v')]),
 'EFLRAttribute._convert_value': dict(
    props=['C05', 'C07'], self_fields={'_object_class': 'oneof[none,cls:ZoneSet]'},
    params={'v': 'oneof[obj:ZoneItemT,obj:NamedT,str]'}, returns='obj:ZoneItemT',
    raises={'TypeError': 'not isinstance(v, (ZoneItem if self._object_class is not None else EFLRItem))'},
    ensures=[('a-reference-is-the-referenced-object-itself', 'result is v')]),
})
for _mv in (True, False):
    for _shape, _spec in (('scalar', 'opq:uval'), ('list-of-2', 'list[opq:uval]*2'), ('tuple-of-2', 'tuple[opq:uval,opq:uval]')):
        if _mv:
            exp = '[conv(value), ]' if _shape == 'scalar' else '[conv(value[0]), conv(value[1])]'
        else:
            if _shape != 'scalar':
                continue
            exp = 'conv(value)'
        CONTRACTS[f'Attribute.convert_value[multivalued={_mv},{_shape}]'] = dict(
            target='Attribute.convert_value', props=['C05'] + (['C18', 'C14'] if _shape == 'list-of-2' else []),
            self_fields={'_multivalued': f'const:{_mv}', '_multidimensional': 'const:False', '_converter': 'stubfn1'},
            params={'value': _spec}, returns='opq:stored', may_raise=['StubException'],
            ensures=[('each-value-converted-once-in-order', f'result == {exp}')] +
                    # C18 / C14: the attribute holds a list of its OWN - a list the caller goes on using (one work list for the channels of
                    # several frames) must not become part of the specification, and is left as it was
                    ([('the-attribute-keeps-a-list-of-its-own-never-the-callers', 'result is not value')] if _shape == 'list-of-2' else []),
            **({'modifies': [], 'exc_modifies': []} if _shape == 'list-of-2' else {}))
SPEC_UFS['conv'] = (('opq',), 'opq')
# C04 / C12: an attribute that is not multivalued is written with the default count 1, so it must never come to hold several values
for _shape, _spec in (('list-of-2', 'list[opq:uval]*2'), ('tuple-of-2', 'tuple[opq:uval,opq:uval]'), ('empty-list', 'list[opq:uval]*0')):
    CONTRACTS[f'Attribute.convert_value[multivalued=False,{_shape}]'] = dict(
        target='Attribute.convert_value', props=['C04', 'C12', 'C05'],
        self_fields={'_multivalued': 'const:False', '_multidimensional': 'const:False', '_converter': 'stubfn1'},
        params={'value': _spec}, returns='opq:stored', may_raise=['StubException'],
        raises={'TypeError': 'True'}, ensures=[])

# ---------------------------------------------------------------------------------------------- the setters themselves (behind the summaries above)
CONTRACTS['Attribute.value.setter[verified]'] = dict(
    target='Attribute.value', kind='set', props=['C05'],
    self_fields={'_value': 'opq:stored', '_multivalued': 'bool', '_multidimensional': 'const:False', '_converter': 'stubfn1'},
    params={'val': 'opq:uval'}, returns='none', may_raise=['StubException'],
    ensures=[('stored-value-is-the-converted-value-a-scalar-of-a-multivalued-attribute-becomes-a-one-element-list',
              'self._value == ([conv(val), ] if self._multivalued else conv(val))')])
CONTRACTS['Attribute.units.setter[verified]'] = dict(
    target='Attribute.units', kind='set', props=['C05', 'C17'], self_class='Attribute',
    self_fields={'_units': 'opq:stored', '_unit_checker': 'stubfn1'}, params={'units': 'opq:uval'}, returns='none',
    may_raise=['StubException'],
    ensures=[('units-stored-are-the-checked-units', 'self._units == conv(units)')])
CONTRACTS['DimensionAttribute.units.setter'] = dict(
    target='Attribute.units', kind='set', props=['C05'], self_class='DimensionAttribute',
    self_fields={'_units': 'opq:stored', '_unit_checker': 'stubfn1'}, params={'units': 'opq:uval'}, returns='none',
    raises={'RuntimeError': 'True'}, ensures=[], exc_ensures=[('units-of-a-unitless-attribute-type-cannot-be-set', 'self._units is old(self._units)')])

# ---------------------------------------------------------------------------------------------- write-time defaults only where nothing was set (C05)
AV = lambda: {'cls': 'Attribute', 'fields': {'_value': 'opq:stored'}}
CONTRACTS['OriginItem._run_checks_and_set_defaults'] = dict(
    props=['C05', 'C14'], self_fields={'name': 'str', 'field_name': AV()}, params={}, returns='none', may_raise=['AnyException'],
    modifies=['self.field_name._value'], exc_modifies=['self.field_name._value'],
    ensures=[('field-name-given-by-the-user-is-kept', 'implies(old(self.field_name._value) is not None, self.field_name._value is old(self.field_name._value))'),
             ('documented-default-WILDCAT-only-when-unset', "implies(old(self.field_name._value) is None, self.field_name._value == converted(self.field_name, 'WILDCAT'))")])


# ---------------------------------------------------------------------------------------------- C12: ragged values are refused
# "degenerate but representable inputs are either rejected or encoded faithfully": a nested value whose rows differ in length has no
# DIMENSION it could be written with - it is refused when it is assigned (PARAMETER / COMPUTATION values, CALIBRATION-MEASUREMENT samples)
SPEC_UFS = dict(globals().get('SPEC_UFS', {}), np_ragged=(('opq',), 'bool'))
OPQ_MODELS['nested'] = {'__isinstance__': {'list': True, 'tuple': False}}
CONTRACTS['DimensionedItem._check_or_set_value_dimensionality'] = dict(
    props=['C12', 'C04', 'C05'], self_fields={'dimension': {'cls': 'Attribute', 'fields': {'_value': 'oneof[none,list[int]*0,list[int]*1]'}}},
    params={'value': 'oneof[none,opq:nested]', 'value_label': 'str?'}, returns='none',
    may_raise=['RuntimeError', 'AnyException'],
    ensures=[('a-ragged-value-is-never-accepted', 'value is None or not np_ragged(value)')])

# ---------------------------------------------------------------------------------------------- C13: the tolerance kernel
# Proof for index arrays of ANY length >= 2 under the step model X-NPSTEP (pyvc/npstats.py): the array is abstracted by its least and
# greatest consecutive difference, the median of the differences and the number of (distinct) differences; element-wise numpy
# arithmetic is interpreted over the reals. Stated from the property and the documented rule, not from the code:
#   uniform within the documented tolerance  :=  all steps equal, or (median m != 0 and (1 - d/m)**2 < 0.001 for EVERY step d);
#   the truth set of (1 - d/m)**2 < 0.001 is an interval in d, so "every step" is "the least and the greatest step" (convexity).
SPEC_UFS.update({'step_min': (('opq',), 'real'), 'step_max': (('opq',), 'real'), 'step_median': (('opq',), 'real')})
LO, HI, MED = 'step_min(index_data)', 'step_max(index_data)', 'step_median(index_data)'
NEAR = f'({MED} != 0 and (1 - {LO} / {MED}) ** 2 < 0.001 and (1 - {HI} / {MED}) ** 2 < 0.001)'
CONTRACTS['FrameItem._compute_spacing_and_direction'] = dict(
    props=['C13'], params={'index_data': 'opq:ndarray'}, returns='any',
    # excluded here, covered natively by the open findings: one row (no step), integer wrap-around in np.diff, NaN
    ensures=[('increasing-exactly-when-no-step-is-negative-and-some-step-is-positive', f'(result[1] is True) == ({LO} >= 0 and {HI} > 0)'),
             ('decreasing-exactly-when-no-step-is-positive-and-some-step-is-negative', f'(result[1] is False) == ({HI} <= 0 and {LO} < 0)'),
             ('no-direction-otherwise', f'(result[1] is None) == (({LO} == 0 and {HI} == 0) or ({LO} < 0 and {HI} > 0))'),
             ('equal-steps-give-that-step', f'implies({LO} == {HI}, result[0] == {LO})'),
             ('nearly-uniform-steps-give-their-median', f'implies({LO} != {HI} and {NEAR}, result[0] == {MED})'),
             ('spacing-is-absent-when-the-steps-are-not-uniform-within-the-tolerance', f'implies({LO} != {HI} and not {NEAR}, result[0] is None)'),
             ('spacing-is-present-only-when-uniform-within-the-tolerance', f'implies(result[0] is not None, {LO} == {HI} or {NEAR})')])
