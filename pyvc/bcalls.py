"""Builtin functions and methods of builtin types (axiomatised python core, A-PY / X-STR / X-STRUCT)."""
import ast
import z3
from .values import *
from .engine import HObj, HList, HSeqList, HDict, key_of, Frame
from . import builtins_ as B
from .exprs import _conc_int


class BuiltinMixin:
    def call_builtin(self, f, args, kw, node=None):
        name = f.builtin
        if name.startswith('meth:'):
            return self.call_builtin_method(f.bound, name[5:], args, kw, node)
        if name.startswith('unbound:'):
            if not args:
                raise PyRaise('TypeError', 'unbound method needs a receiver')
            return self.call_builtin_method(args[0], name[8:], list(args[1:]), kw, node)
        if name.startswith('npstep:'):
            return self.np_method(f.bound, name[7:], args, kw, node)
        if name.startswith('opq:'):
            return self.call_opq_method(f.bound, name[4:], args, kw, node)
        if name.startswith('opqm:'):
            return self.opq_call(f.bound, name[5:].split('.', 1)[1], args, kw, node)
        if name == 'object.__init__':
            o = f.bound
            if o is not None and o.k == 'obj':
                h = self.st.heap[o.t]
                bases = [b for c_ in self.src.mro(h.cls) if c_ in self.src.classes for b in self.src.classes[c_].bases]
                if any(b in ('defaultdict', 'dict', 'collections.defaultdict') for b in bases) and '__store__' not in h.f:
                    # a dict subclass: its items live in a store; defaultdict's first argument is the factory of missing values
                    st_ = HDict({})
                    if any('defaultdict' in b for b in bases) and args:
                        st_.default = args[0]
                    h.f['__store__'] = SV('dict', self.st.alloc(st_))
            return NONE
        if name.startswith('uf:'):
            return self.apply_spec_uf(name[3:], args)
        if name == 'stubfn1':
            # a converter of the environment: a pure function conv(x) of its argument, or an exception
            if self.st.oracle.choose(2) == 1:
                raise PyRaise('StubException', 'conv')
            return SV('opq', self.ufunc('conv', OPQ, OPQ)(self.as_opq(args[0])), 'stored')
        if name == 'stubfn':
            # an arbitrary callable of the environment: may change the declared locations, may raise anything
            c = self.cur_contract or {}
            for loc in c.get('stub_havoc', []):
                self.havoc_location(loc, dict(self.st.frames[0].env), c)
            if self.st.oracle.choose(2) == 1:
                raise PyRaise('StubException', f.name)
            return SV('opq', self.sym('stub_result', OPQ))
        if name.startswith('refmethod:'):
            key = name[len('refmethod:'):]
            c = self.contracts[key]
            fn, owner, module, ent = self.find_function(key, c)
            ff = FuncVal(node=fn, bound=f.bound, owner=owner, name=fn.name, module=module)
            return self.modular_call(key, c, ff, [f.bound] + list(args), kw, node)
        if name == 'object.__setattr__':
            self.store_attr(f.bound, args[0].t, args[1], node, custom=False)
            return NONE
        h = getattr(self, 'bi_' + name, None)
        if h is None:
            raise Unsupported(f'builtin {name}')
        return h(args, kw, node)

    SORTS = {'int': INT, 'bool': BOOL, 'bytes': SEQ, 'str': SEQ, 'opq': OPQ, 'seq': SEQ, 'ref': INT, 'real': z3.RealSort()}

    def to_sort(self, v, kind):
        if kind == 'int':
            return self.as_int(v)
        if kind == 'bool':
            return self.truth(v)
        if kind in ('bytes', 'str'):
            return self.as_seq(v)
        if kind == 'seq':
            return self.list_as_seq(v) if v.k in ('list', 'seq') else self.as_seq(v)
        if kind == 'ref':
            return v.t if v.k == 'ref' else z3.IntVal(-v.t)     # concrete objects: negative ids (disjoint from symbolic refs >= 0 by convention)
        return self.as_opq(v)

    def apply_spec_uf(self, name, args):
        """uninterpreted specification function declared by a contracts module (SPEC_UFS)"""
        argk, resk = self.spec_ufs[name]
        if name == 'concat_enc':
            return SV('bytes', self.concat_enc(self.as_int(args[0]), self.to_sort(args[1], 'seq')))
        if isinstance(resk, str) and resk.startswith('concat:'):
            return SV('bytes', self.concat_uf(name, resk[7:], self.to_sort(args[0], 'seq')))
        f = self.ufunc(name, *[self.SORTS[k] for k in argk], self.SORTS[resk])
        t = f(*[self.to_sort(a, k) for a, k in zip(args, argk)])
        return {'int': VI, 'bool': VB}.get(resk, lambda x: SV(resk if resk != 'opq' else 'opq', x))(t)

    def concat_enc(self, code, seq):
        """concatenation of enc_value(code, x) over the elements x of seq: recursive specification function, unfolded structurally
        (empty / unit / concatenation); atoms stay uninterpreted"""
        seq = z3.simplify(seq)
        k = seq.decl().kind() if z3.is_app(seq) else None
        enc = self.ufunc('enc_value', INT, OPQ, SEQ)
        if k == z3.Z3_OP_SEQ_EMPTY:
            return z3.Empty(SEQ)
        if k == z3.Z3_OP_SEQ_UNIT:
            return enc(code, self.ufunc('of_ref', INT, OPQ)(seq.arg(0)))
        if k == z3.Z3_OP_SEQ_CONCAT:
            return z3.Concat(*[self.concat_enc(code, c) for c in seq.children()])
        return self.ufunc('concat_enc', INT, SEQ, SEQ)(code, seq)

    def concat_uf(self, name, elem_uf, seq):
        """concatenation of elem_uf(x) (bytes of one element) over the elements of seq; unfolded structurally"""
        seq = z3.simplify(seq)
        k = seq.decl().kind() if z3.is_app(seq) else None
        f = self.ufunc(elem_uf, INT, SEQ)
        if k == z3.Z3_OP_SEQ_EMPTY:
            return z3.Empty(SEQ)
        if k == z3.Z3_OP_SEQ_UNIT:
            return f(seq.arg(0))
        if k == z3.Z3_OP_SEQ_CONCAT:
            return z3.Concat(*[self.concat_uf(name, elem_uf, c) for c in seq.children()])
        return self.ufunc(name, SEQ, SEQ)(seq)

    def call_opq_method(self, recv, name, args, kw, node):
        h = getattr(self, 'opq_methods', {}).get(name)
        if h is None:
            raise Unsupported(f'opaque method {name}')
        return h(self, recv, args, kw, node)

    # ------------------------------------------------------------ core builtins
    def resolve_seq(self, seq, depth=0):
        """replace an atomic sequence by its definition if the path condition has an equation  atom == term"""
        seq = z3.simplify(seq)
        if depth > 4 or not z3.is_const(seq) or seq.decl().kind() != z3.Z3_OP_UNINTERPRETED:
            return seq
        for f in self.st.pc:
            if z3.is_app(f) and f.decl().kind() == z3.Z3_OP_EQ and z3.is_seq(f.arg(0)):
                a, b = f.arg(0), f.arg(1)
                if a.eq(seq) and not b.eq(seq) and not (z3.is_const(b) and b.decl().kind() == z3.Z3_OP_UNINTERPRETED and depth > 2):
                    return self.resolve_seq(b, depth + 1)
                if b.eq(seq) and not a.eq(seq) and not z3.is_const(a):
                    return self.resolve_seq(a, depth + 1)
        return seq

    def count_filtered(self, fn, seq, x, node=None):
        """number of elements of a symbolic sequence satisfying a predicate: unfolded structurally; an atomic sequence gets an
        uninterpreted count whose name is derived from the predicate applied to a generic element"""
        seq = self.resolve_seq(seq)
        k = seq.decl().kind() if z3.is_app(seq) else None
        if k == z3.Z3_OP_SEQ_EMPTY:
            return z3.IntVal(0)
        if k == z3.Z3_OP_SEQ_UNIT:
            p_ = self.truth(self.call_value(fn, [SV('ref', seq.arg(0), x)], {}, node))
            return z3.If(p_, z3.IntVal(1), z3.IntVal(0))
        if k == z3.Z3_OP_SEQ_CONCAT:
            return z3.Sum(*[self.count_filtered(fn, c, x, node) for c in seq.children()])
        import hashlib
        # the count over an atomic sequence is an uninterpreted function named after the predicate: its source text plus the
        # values of the names it captures (two textually equal predicates over equal captured values share the function)
        f = fn.t
        body = None
        if f.node is not None and isinstance(f.node, ast.Lambda):
            body = f.node.body
        elif f.node is not None and isinstance(f.node, ast.FunctionDef):
            stmts = [x for x in f.node.body if not (isinstance(x, ast.Expr) and isinstance(x.value, ast.Constant))]
            if len(stmts) == 1 and isinstance(stmts[0], ast.Return) and stmts[0].value is not None:
                body = stmts[0].value        # def p(o): return <expr>   is the predicate  lambda o: <expr>
        if body is None:
            raise Unsupported('filter with a predicate that is not a single expression over a symbolic sequence')
        params = {a.arg for a in f.node.args.args}
        parts = [ast.unparse(body)]
        for nm in sorted({n.id for n in ast.walk(body) if isinstance(n, ast.Name)} - params):
            v = (f.closure or {}).get(nm)
            if v is None:
                v = self.frame.env.get(nm)
            if v is None:
                parts.append(f'{nm}=<global>')
            elif v.k in ('obj', 'list', 'dict'):
                parts.append(f'{nm}=#{v.t}')
            elif z3.is_expr(v.t):
                parts.append(f'{nm}={z3.simplify(v.t).sexpr()}')
            else:
                parts.append(f'{nm}={v.t!r}')
        name = 'count_' + hashlib.sha1('|'.join(parts).encode()).hexdigest()[:12]
        c = self.ufunc(name, SEQ, INT)(seq)
        self.assume(c >= 0)
        self.assume(c <= z3.Length(seq))
        return c

    def bi_len(self, args, kw, node):
        a = args[0]
        if a.k == 'filt':
            return VI(self.count_filtered(a.t[0], a.t[1], a.t[2], node))
        if a.k in ('bytes', 'str', 'seq'):
            return VI(z3.Length(a.t))
        if a.k == 'tuple':
            return VI(len(a.t))
        if a.k == 'list':
            h = self.st.heap[a.t]
            if isinstance(h, HSeqList):
                return VI(z3.Length(h.seq))
            if getattr(h, 'is_set', False):
                raise Unsupported('size of a set (multiplicity is not modelled)')
            return VI(len(h.items))
        if a.k == 'dict' and self.st.heap[a.t].sym:
            # number of distinct (symbolic) keys: entry i counts if no later entry has an equal key
            ent = self.st.heap[a.t].sym
            tot = z3.IntVal(0)
            for i, (k_, _) in enumerate(ent):
                later = [self.equal(k_, k2) for k2, _ in ent[i + 1:]]
                tot = tot + z3.If(z3.Or(*later) if later else z3.BoolVal(False), 0, 1)
            return VI(tot)
        if a.k == 'dict':
            return VI(len(self.st.heap[a.t].d))
        if a.k == 'const':
            if isinstance(a.t, B.Items):
                return VI(len(a.t.items))
            return VI(len(a.t))
        if a.k == 'obj' and '__store__' in self.st.heap[a.t].f:
            return self.bi_len([self.st.heap[a.t].f['__store__']], {}, node)
        if a.k == 'obj':
            return self.call_method(a, '__len__', [], {}, node)
        if a.k == 'earr':
            return self.np_len(a)
        if a.k == 'opq':
            t = self.ufunc('opq_len', OPQ, INT)(a.t)
            self.assume(t >= 0)
            return VI(t)
        raise PyRaise('TypeError', 'len')

    def _minmax(self, args, kw, is_min):
        vals = args if len(args) > 1 else self.iter_concrete(args[0])
        if all(v.k == 'const' for v in vals):
            return VC((min if is_min else max)(v.t for v in vals))
        r = self.as_int(vals[0])
        for v in vals[1:]:
            x = self.as_int(v)
            r = z3.If(x < r, x, r) if is_min else z3.If(x > r, x, r)
        return VI(r)

    def bi_min(self, args, kw, node):
        return self._minmax(args, kw, True)

    def bi_max(self, args, kw, node):
        return self._minmax(args, kw, False)

    def bi_sum(self, args, kw, node):
        r = z3.IntVal(0)
        for v in self.iter_concrete(args[0]):
            r = r + self.as_int(v)
        return VI(z3.simplify(r))

    def bi_prod(self, args, kw, node):
        # math.prod of a concrete-length iterable of integers (start = 1)
        r = self.as_int(kw['start']) if 'start' in kw else (self.as_int(args[1]) if len(args) > 1 else z3.IntVal(1))
        for v in self.iter_concrete(args[0]):
            r = r * self.as_int(v)
        return VI(z3.simplify(r))

    def bi_abs(self, args, kw, node):
        x = self.as_int(args[0])
        return VI(z3.If(x < 0, -x, x))

    def bi_map(self, args, kw, node):
        fn = args[0]
        seqs = [self.iter_concrete(a) for a in args[1:]]
        return SV('const', B.Items([self.call_value(fn, list(t), {}, node) for t in zip(*seqs)]))

    def bi_filter(self, args, kw, node):
        fn = args[0]
        src = args[1]
        if src.k == 'list' and isinstance(self.st.heap[src.t], HSeqList):
            h = self.st.heap[src.t]
            src = SV('seq', h.seq, h.x)
        if src.k == 'seq':
            return SV('filt', (fn, src.t, src.x))
        out = []
        for v in self.iter_concrete(src):
            if self.branch(self.truth(self.call_value(fn, [v], {}, node))):
                out.append(v)
        return SV('const', B.Items(out))

    def bi_any(self, args, kw, node):
        ts = [self.truth(v) for v in self.iter_concrete(args[0])]
        return VB(z3.Or(*ts) if ts else False)

    def bi_all(self, args, kw, node):
        ts = [self.truth(v) for v in self.iter_concrete(args[0])]
        return VB(z3.And(*ts) if ts else True)

    def bi_zip(self, args, kw, node):
        seqs = [self.iter_concrete(a) for a in args]
        return SV('const', B.Items([SV('tuple', tuple(t)) for t in zip(*seqs)]))

    def bi_enumerate(self, args, kw, node):
        return SV('const', B.Items([SV('tuple', (VI(i), v)) for i, v in enumerate(self.iter_concrete(args[0]))]))

    def bi_range(self, args, kw, node):
        cs = [_conc_int(self.as_int(a)) for a in args]
        if all(c is not None for c in cs):
            return VC(range(*cs))
        return SV('range', tuple(args))

    def bi_divmod(self, args, kw, node):
        q = self.binop('FloorDiv', args[0], args[1], node)
        r = self.binop('Mod', args[0], args[1], node)
        return SV('tuple', (q, r))

    def bi_bool(self, args, kw, node):
        return VB(self.truth(args[0])) if args else VB(False)

    def bi_int(self, args, kw, node):
        if not args:
            return VI(0)
        a = args[0]
        if len(args) == 2 or 'base' in kw:
            base = args[1] if len(args) == 2 else kw['base']
            if a.k == 'const' and isinstance(a.t, str):
                try:
                    return VI(int(a.t, _conc_int(self.as_int(base))))
                except ValueError:
                    raise PyRaise('ValueError')
            raise Unsupported('int(symbolic str, base)')
        if a.k in ('int', 'bool'):
            return VI(self.as_int(a))
        if a.k == 'enum':
            return VI(self.as_int(a))
        if a.k == 'const':
            try:
                return VI(int(a.t))
            except ValueError:
                raise PyRaise('ValueError')
        if a.k == 'opq':
            # int(float): exact for integral floats (A-FLOAT: int_of(of_int(n)) == n)
            t = self.ufunc('int_of', OPQ, INT)(a.t)
            return VI(t)
        if a.k == 'str':
            if self.branch(self.ufunc('is_int_literal', SEQ, BOOL)(a.t)):
                return VI(self.ufunc('int_of_str', SEQ, INT)(a.t))
            raise PyRaise('ValueError')
        raise Unsupported(f'int({a})')

    def bi_float(self, args, kw, node):
        a = args[0]
        if a.k == 'opq':
            return a
        if self.is_num(a):
            return SV('opq', self.ufunc('of_int', INT, OPQ)(self.as_int(a)), 'float')
        if a.k == 'const' and isinstance(a.t, float):
            return a
        if a.k == 'const' and isinstance(a.t, str):
            try:
                return VC(float(a.t))
            except ValueError:
                raise PyRaise('ValueError')
        if a.k == 'str':
            if self.branch(self.ufunc('is_float_literal', SEQ, BOOL)(a.t)):
                return SV('opq', self.ufunc('float_of_str', SEQ, OPQ)(a.t), 'float')
            raise PyRaise('ValueError')
        raise Unsupported(f'float({a})')

    def bi_str(self, args, kw, node):
        return self.to_str(args[0])

    def bi_repr(self, args, kw, node):
        return SV('opq', self.sym('repr', OPQ), 'str')

    def to_str(self, a):
        if self.is_str_like(a):
            return a
        if a.k == 'const':
            return VC(str(a.t))
        if a.k == 'int':
            c = _conc_int(a.t)
            if c is not None:
                return VC(str(c))
            return VS(self.str_of_int(a.t))
        if a.k == 'bool':
            return VS(z3.If(a.t, seq_of_str('True'), seq_of_str('False')))
        if a.k == 'none':
            return VC('None')
        if a.k == 'opq':
            return VS(self.ufunc('str_of_opq', OPQ, SEQ)(a.t))
        if a.k == 'bytes':
            # X-STR: str(b'..') is the repr "b'..'" (3 more characters at least), str(bytearray(..)) is "bytearray(b'..')" (14 more);
            # an ASCII text that is never the decoded content
            r = self.ufunc('repr_of_bytes_' + ('bytearray' if a.x == 'bytearray' else 'bytes'), SEQ, SEQ)(a.t)
            self.assume(z3.Length(r) >= z3.Length(a.t) + (14 if a.x == 'bytearray' else 3))
            self.assume(self.all_ascii(r))
            return VS(r)
        if a.k in ('obj', 'ref', 'list', 'dict', 'tuple', 'cls'):
            # A-LOG: __str__/__repr__ of library objects are field reads (text content not modelled: an opaque string)
            return VS(self.sym('text', SEQ))
        if a.k == 'enum':
            # Enum.__str__ (python 3.12): 'Class.MEMBER' unless a mixed-in type defines __str__ (IntEnum/ReprEnum: value)
            cls, m = a.t
            bases = ' '.join(' '.join(self.src.classes[c].bases) for c in self.src.mro(cls) if c in self.src.classes)
            if 'IntEnum' in bases:
                return VC(str(self.enum_value(a)))
            return VC(f'{cls}.{m}')
        raise Unsupported(f'str({a})')

    def str_of_int(self, n):
        """X-STR: decimal numeral of n.  Axioms instantiated per application: length by magnitude, all chars ASCII."""
        f = self.ufunc('str_of_int', INT, SEQ)
        s = f(n)
        ln = z3.Length(s)
        nd = z3.IntVal(20)
        bound = 10 ** 18
        # digits of |n|
        a = z3.If(n < 0, -n, n)
        digs = z3.IntVal(19)
        for kdig in range(18, 0, -1):
            digs = z3.If(a < 10 ** kdig, z3.IntVal(kdig), digs)
        self.assume(z3.Implies(a < bound, ln == digs + z3.If(n < 0, 1, 0)))
        self.assume(ln >= 1)
        self.assume(self.ufunc('all_ascii', SEQ, BOOL)(s))
        return s

    def bi_round(self, args, kw, node):
        a = args[0]
        if a.k == 'opq':
            return VI(self.ufunc('round_of', OPQ, INT)(a.t))
        if self.is_num(a):
            return VI(self.as_int(a))
        raise Unsupported('round')

    def bi_tuple(self, args, kw, node):
        if not args:
            return SV('tuple', ())
        return SV('tuple', tuple(self.iter_concrete(args[0])))

    def bi_list(self, args, kw, node):
        if not args:
            return SV('list', self.st.alloc(HList([])))
        a = args[0]
        if a.k in ('seq', 'filt'):
            return a
        return SV('list', self.st.alloc(HList(self.iter_concrete(a))))

    def bi_sorted(self, args, kw, node):
        """stable insertion sort of a concrete-length iterable; every comparison of symbolic keys is a decision of the path"""
        items = list(self.iter_concrete(args[0]))
        if len(items) > 5:
            raise Unsupported('sorted() of more than 5 elements')
        keyf = kw.get('key')
        keys = [self.call_value(keyf, [x], {}, node) if keyf is not None and keyf.k != 'none' else x for x in items]
        rev = kw.get('reverse')
        if rev is not None and not (rev.k == 'bool' and z3.is_false(z3.simplify(rev.t))):
            raise Unsupported('sorted(reverse=...)')
        out = []
        for x, kx in zip(items, keys):
            pos = len(out)
            while pos > 0 and self.branch(self.compare('Lt', kx, out[pos - 1][1], node)):
                pos -= 1
            out.insert(pos, (x, kx))
        return SV('list', self.st.alloc(HList([x for x, _ in out])))

    def bi_reversed(self, args, kw, node):
        return SV('list', self.st.alloc(HList(list(self.iter_concrete(args[0]))[::-1])))

    def bi_dict(self, args, kw, node):
        d = {}
        if args:
            d.update(self.st.heap[args[0].t].d)
        for k, v in kw.items():
            d[('c', k)] = v
        return SV('dict', self.st.alloc(HDict(d)))

    def bi_set(self, args, kw, node):
        items = self.iter_concrete(args[0]) if args else []
        seen = {}
        for v in items:
            seen[key_of(v)] = v
        return SV('const', B.Items(list(seen.values())))

    def bi_issubclass(self, args, kw, node):
        a, b = args
        if a.k != 'cls':
            raise PyRaise('TypeError', 'issubclass arg 1')
        if b.k == 'tuple':
            return VB(any(x.k == 'cls' and self.src.is_subclass(a.t, x.t) for x in b.t))
        if b.k == 'cls':
            return VB(self.src.is_subclass(a.t, b.t))
        return VB(False)

    def bi_callable(self, args, kw, node):
        return VB(args[0].k in ('func', 'cls'))

    def bi_type(self, args, kw, node):
        a = args[0]
        if a.k == 'obj':
            return SV('cls', self.st.heap[a.t].cls)
        if a.k == 'enum':
            return SV('cls', a.t[0])
        names = {'int': 'int', 'bool': 'bool', 'str': 'str', 'bytes': 'bytes', 'none': 'NoneType', 'list': 'list', 'tuple': 'tuple', 'dict': 'dict'}
        if a.k in names:
            return SV('func', FuncVal(builtin=names[a.k], name=names[a.k]))
        if a.k == 'const':
            return SV('func', FuncVal(builtin=type(a.t).__name__, name=type(a.t).__name__))
        if a.k == 'opq':
            return SV('opq', self.ufunc('type_of', OPQ, OPQ)(a.t), 'type')
        raise Unsupported('type()')

    def bi_getattr(self, args, kw, node):
        o, n = args[0], args[1]
        if n.k != 'const':
            raise Unsupported('getattr with symbolic name')
        if len(args) > 2:
            try:
                return self.getattr_value(o, n.t, node, default=args[2] if args[2].k != 'none' else SV('none'))
            except PyRaise as r:
                if r.exc == 'AttributeError':
                    return args[2]
                raise
        return self.getattr_value(o, n.t, node)

    def bi_setattr(self, args, kw, node):
        o, n, v = args
        if n.k != 'const':
            raise Unsupported('setattr with symbolic name')
        self.store_attr(o, n.t, v, node)
        return NONE

    def bi_bytearray(self, args, kw, node):
        if not args:
            return SV('bytes', z3.Empty(SEQ), 'bytearray')
        a = args[0]
        if self.is_num(a):
            n = self.as_int(a)
            if not self.branch(n >= 0):
                raise PyRaise('ValueError')
            r = self.sym('zeros', SEQ)
            self.assume(z3.Length(r) == n)
            self.assume(r == self.ufunc('repeat', INT, INT, SEQ)(z3.IntVal(0), n))
            return SV('bytes', r, 'bytearray')
        return SV('bytes', self.as_seq(a), 'bytearray')

    def bi_bytes(self, args, kw, node):
        if not args:
            return VC(b'')
        a = args[0]
        if a.k in ('list', 'tuple') or (a.k == 'const' and isinstance(a.t, B.Items)):
            items = self.iter_concrete(a)
            if not items:
                return VC(b'')
            us = [z3.Unit(self.as_int(x)) for x in items]
            return SV('bytes', z3.simplify(us[0] if len(us) == 1 else z3.Concat(*us)))
        return SV('bytes', self.as_seq(a))

    def bi_ascii_bytes(self, args, kw, node):
        return SV('bytes', self.as_seq(args[0]))

    def bi_next(self, args, kw, node):
        a = args[0]
        if a.k == 'const' and isinstance(a.t, B.Items):
            if not a.t.items:
                raise PyRaise('StopIteration')
            return a.t.items.pop(0)
        raise Unsupported('next()')

    def bi_iter(self, args, kw, node):
        # an iterator object: always truthy (unlike the list it walks), consumed by iteration
        a = args[0]
        if a.k == 'seq' or (a.k == 'list' and isinstance(self.st.heap[a.t], HSeqList)):
            # over a sequence of symbolic length: an opaque iterator (never equal to a list, always truthy)
            return SV('opq', self.sym('iterator', OPQ), 'iterator')
        it = B.Items(self.iter_concrete(args[0]))
        it.is_iterator = True
        return SV('const', it)

    def bi_iff(self, args, kw, node):
        return VB(self.truth(args[0]) == self.truth(args[1]))

    def bi_implies(self, args, kw, node):
        return VB(z3.Implies(self.truth(args[0]), self.truth(args[1])))

    def bi_id(self, args, kw, node):
        a = args[0]
        if a.k in ('obj', 'list', 'dict'):
            return VI(a.t)
        raise Unsupported('id()')

    def bi_progressbar(self, args, kw, node):
        return args[0]          # D5: progressbar(it, ...) is it

    def bi_timeit(self, args, kw, node):
        # D5: timeit(f, number=1) is one call of f (returns an opaque duration)
        n = kw.get('number')
        if n is None or _conc_int(self.as_int(n)) != 1:
            raise Unsupported('timeit with number != 1')
        self.call_value(args[0], [], {}, node)
        return SV('opq', self.sym('seconds', OPQ), 'float')

    def bi_Counter(self, args, kw, node):
        """collections.Counter: a dict whose missing keys read as 0; update(iterable) counts elements"""
        h = HDict({})
        h.default = SV('func', FuncVal(builtin='int', name='int'))
        h.is_counter = True
        r = SV('dict', self.st.alloc(h))
        if args:
            self.call_builtin_method(r, 'update', [args[0]], {}, node)
        return r

    def bi_slice(self, args, kw, node):
        if len(args) == 1:
            return SV('slice', (NONE, args[0]))
        return SV('slice', (args[0], args[1]))

    def bi_print(self, args, kw, node):
        return NONE

    # ------------------------------------------------------------ methods of builtin types
    def call_builtin_method(self, recv, name, args, kw, node):
        k = recv.k
        if k == 'list':
            h = self.st.heap[recv.t]
            if isinstance(h, HSeqList):
                if name == 'append':
                    h.seq = z3.Concat(h.seq, z3.Unit(self.elem_code(args[0])))
                    return NONE
                raise Unsupported(f'list.{name} on a list of symbolic length')
            if name == 'append':
                h.items.append(args[0])
                return NONE
            if name == 'extend':
                h.items.extend(self.iter_concrete(args[0]))
                return NONE
            if name == 'insert':
                i = _conc_int(self.as_int(args[0]))
                if i is None:
                    raise Unsupported('list.insert at a symbolic position')
                h.items.insert(i, args[1])
                return NONE
            if name == 'reverse':
                h.items.reverse()
                return NONE
            if name == 'copy':
                return SV('list', self.st.alloc(HList(h.items)))
            if name == 'index':
                for i, x in enumerate(h.items):
                    if self.branch(self.equal(x, args[0])):
                        return VI(i)
                raise PyRaise('ValueError')
            if name == 'pop':
                if not h.items:
                    raise PyRaise('IndexError')
                i = _conc_int(self.as_int(args[0])) if args else -1
                return h.items.pop(i)
        if k == 'dict':
            h = self.st.heap[recv.t]
            if name == 'items':
                return SV('const', B.Items([SV('tuple', (self.unkey(kk), v)) for kk, v in h.d.items()]))
            if name == 'values':
                return SV('const', B.Items(list(h.d.values())))
            if name == 'keys':
                return SV('const', B.Items([self.unkey(kk) for kk in h.d]))
            if name == 'get':
                if args[0].k == 'enumv':
                    args = [self.concrete_member(args[0])] + list(args[1:])
                kk = self.dict_key(h, args[0])
                if kk in h.d:
                    return h.d[kk]
                return args[1] if len(args) > 1 else kw.get('default', NONE)
            if name == 'update' and getattr(h, 'is_counter', False):
                for x in self.iter_concrete(args[0]):
                    kk = key_of(x)
                    h.d[kk] = VI(self.as_int(h.d.get(kk, VI(0))) + 1)
                return NONE
            if name == 'update':
                for k_, v_ in list(self.st.heap[args[0].t].d.items()):
                    h.d[self.dict_key(h, self.unkey(k_)) if (k_[0] == 's' or any(x[0] == 's' for x in h.d)) else k_] = v_
                return NONE
            if name == 'setdefault':
                kk = self.dict_key(h, args[0])
                if kk not in h.d:
                    h.d[kk] = args[1] if len(args) > 1 else NONE
                return h.d[kk]
            if name == 'pop':
                kk = self.dict_key(h, args[0])
                if kk in h.d:
                    return h.d.pop(kk)
                if len(args) > 1:
                    return args[1]
                raise PyRaise('KeyError')
        if k == 'tuple':
            if name == 'index':
                for i, x in enumerate(recv.t):
                    if self.branch(self.equal(x, args[0])):
                        return VI(i)
                raise PyRaise('ValueError')
            if name == 'count':
                return VI(z3.Sum(*[z3.If(self.equal(x, args[0]), 1, 0) for x in recv.t]) if recv.t else 0)
        if k == 'const' and isinstance(recv.t, tuple) and recv.t and recv.t[0] == 'struct' and name == 'pack':
            return self.struct_pack(recv.t[1], args, node)
        if (k == 'bytes' or (k == 'const' and isinstance(recv.t, (bytes, bytearray)))) and name == 'join':
            sep = self.as_seq(recv)
            out = []
            for i, x in enumerate(self.iter_concrete(args[0])):
                if not self.is_bytes_like(x):
                    raise PyRaise('TypeError', 'bytes.join of a non-bytes item')
                if i:
                    out.append(sep)
                out.append(self.as_seq(x))
            return VBY(z3.Concat(*out) if len(out) > 1 else (out[0] if out else z3.Empty(SEQ)))
        if k == 'const' and isinstance(recv.t, str):
            if all(a.k == 'const' for a in args) and all(v.k == 'const' for v in kw.values()) and name not in ('format',):
                if name == 'encode':
                    try:
                        return VC(recv.t.encode(*[a.t for a in args]))
                    except UnicodeEncodeError:
                        raise PyRaise('UnicodeEncodeError')
                return VC(getattr(recv.t, name)(*[a.t for a in args], **{kk: v.t for kk, v in kw.items()}))
            if name == 'format':
                return self.str_format(recv.t, args, kw, node)
            if name == 'join':
                parts = [self.as_seq(self.to_str(x)) if not self.is_str_like(x) else self.as_seq(x) for x in self.iter_concrete(args[0])]
                if all(x.k == 'const' for x in self.iter_concrete(args[0])):
                    return VC(recv.t.join(x.t for x in self.iter_concrete(args[0])))
                out = []
                for i, p_ in enumerate(parts):
                    if i:
                        out.append(seq_of_str(recv.t))
                    out.append(p_)
                return VS(z3.Concat(*out) if len(out) > 1 else (out[0] if out else z3.Empty(SEQ)))
        if k in ('str',) or (k == 'const' and isinstance(recv.t, str)):
            s = self.as_seq(recv)
            if name == 'encode':
                enc = args[0].t if args else kw.get('encoding', VC('utf-8')).t
                if enc != 'ascii':
                    raise Unsupported(f'encode({enc})')
                ok = self.all_ascii(s)
                if not self.branch(ok):
                    raise PyRaise('UnicodeEncodeError')
                return SV('bytes', s)
            if name in ('ljust', 'rjust'):
                # str.ljust / rjust(width[, fill]): pad to the width, NEVER truncate (a longer string is returned unchanged)
                fill = args[1] if len(args) > 1 else VC(' ')
                width = self.as_int(args[0])
                padn = z3.If(width - z3.Length(s) > 0, width - z3.Length(s), z3.IntVal(0))
                pad = self.seq_repeat(fill, VI(z3.simplify(padn)), node)
                ps = self.as_seq(pad)
                return VS(z3.Concat(s, ps) if name == 'ljust' else z3.Concat(ps, s))
            if name == 'startswith':
                return VB(z3.PrefixOf(self.as_seq(args[0]), s))
            if name == 'endswith':
                return VB(z3.SuffixOf(self.as_seq(args[0]), s))
            if name in ('upper', 'lower', 'strip', 'split', 'replace'):
                f = self.ufunc('str_' + name + ''.join('_' + str(a.t) for a in args if a.k == 'const'), SEQ, SEQ)
                return VS(f(s))
        if k in ('bytes',) or (k == 'const' and isinstance(recv.t, (bytes, bytearray))):
            if name == 'decode':
                raise Unsupported('decode')
        if k == 'opq':
            return self.call_opq_method(recv, name, args, kw, node)
        raise Unsupported(f'method {name} of {recv.k}')

    def str_format(self, fmt, args, kw, node):
        vals = []
        for a in args:
            if a.k == 'const':
                vals.append(a.t)
            elif a.k == 'int' and _conc_int(a.t) is not None:
                vals.append(_conc_int(a.t))
            elif a.k == 'int':
                vals.append(self.concretise(a.t, node))
            else:
                raise Unsupported('format of symbolic non-int')
        return VC(fmt.format(*vals))

    def concretise(self, t, node=None, limit=64):
        """finite-domain concretisation: case split over every value t can take under the (sequence-free over-approximation
        of the) path condition; at most `limit` values, otherwise Unsupported.  A superset of the feasible values is sound:
        the extra cases are infeasible paths."""
        from .solve import SeqAbstraction
        orc = self.st.oracle
        ck = ('conc', z3.simplify(t).sexpr())
        if ck in self.st.ghost:
            return self.st.ghost[ck]          # same term already fixed on this path
        tc = z3.simplify(t)
        if z3.is_int_value(tc):
            return tc.as_long()
        if orc.replaying():
            e = orc.next_entry()
            v = e[1]
            self.assume(t == v)
            self.st.ghost[ck] = v
            return v
        a = SeqAbstraction()
        fs = a.formulas(list(self.st.pc))
        tv = z3.Int('concretise!target')
        fs.append(tv == a.tr(z3.simplify(t)))
        fs = fs + a.side
        s = z3.Solver()
        s.set('timeout', 1000)
        s.add(*fs)
        vals = []
        while True:
            r = s.check()
            if r == z3.unsat:
                break
            if r != z3.sat or len(vals) >= limit:
                raise Unsupported('finite-domain concretisation: domain not provably small')
            v = s.model().eval(tv, model_completion=True).as_long()
            vals.append(v)
            s.add(tv != v)
        if not vals:
            raise PathEnd('infeasible')
        vals.sort()
        base = orc.prefix[:orc.pos]
        for v in vals[1:]:
            orc.new.append(base + [('v', v)])
        orc.prefix.append(('v', vals[0]))
        orc.pos += 1
        self.assume(t == vals[0])
        self.st.ghost[ck] = vals[0]
        return vals[0]

    # ------------------------------------------------------------ X-STRUCT / X-FLOAT: struct.Struct(fmt).pack
    def struct_pack(self, fmt, args, node):
        if fmt in B.STRUCT_INT:
            if len(args) != 1:
                raise PyRaise('struct.error')
            a = args[0]
            if not self.is_num(a) and a.k != 'enum':
                if a.k == 'opq':
                    # non-integer argument for an integer format (A-TYPE): struct.error
                    raise PyRaise('struct.error')
                raise PyRaise('struct.error')
            x = self.as_int(a)
            n, signed = B.STRUCT_INT[fmt]
            lo, hi = (-(1 << (8 * n - 1)), (1 << (8 * n - 1)) - 1) if signed else (0, (1 << (8 * n)) - 1)
            if not self.branch(z3.And(x >= lo, x <= hi)):
                raise PyRaise('struct.error')
            u = z3.If(x < 0, x + (1 << (8 * n)), x) if signed else x
            bs = [z3.Unit((u / (1 << (8 * (n - 1 - i)))) % 256) for i in range(n)]
            return SV('bytes', z3.simplify(bs[0] if n == 1 else z3.Concat(*bs)))
        if fmt in ('>f', '>d'):
            a = args[0]
            x = self.as_opq(a)
            if fmt == '>f':
                if self.branch(self.ufunc('f32_overflow', OPQ, BOOL)(x)):
                    raise PyRaise('OverflowError')
            f = self.ufunc('ieee' + ('32' if fmt == '>f' else '64'), OPQ, SEQ)
            r = f(x)
            self.assume(z3.Length(r) == (4 if fmt == '>f' else 8))
            return SV('bytes', r)
        if fmt[0] == '>' and len(fmt) > 2 and all(('>' + ch) in B.STRUCT_INT for ch in fmt[1:]):
            # several big-endian integer fields: one argument per field
            if len(args) != len(fmt) - 1:
                raise PyRaise('struct.error')
            parts = [self.struct_pack('>' + ch, [a], node) for ch, a in zip(fmt[1:], args)]
            return SV('bytes', z3.Concat(*[p_.t for p_ in parts]))
        raise Unsupported(f'struct format {fmt}')
