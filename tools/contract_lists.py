#!/usr/bin/env python3
"""Rebuild the per-property list of functions under contract in DESIGN.md 12.3 (between the contract-lists markers) from the evidence
files the checks wrote (evidence/Cxx.json: coverage.functions_under_contract)."""
import collections, json, re
out = []
for i in range(1, 21):
    p = f'C{i:02d}'
    ev = json.load(open(f'/verif/evidence/{p}.json'))
    fs = ev['coverage']['functions_under_contract']
    direct = collections.Counter(re.sub(r'\[.*\]$', '', f['function']) for f in fs if not f.get('included_as', '').startswith('callee'))
    dep = collections.Counter(re.sub(r'\[.*\]$', '', f['function']) for f in fs if f.get('included_as', '').startswith('callee'))
    fmt = lambda c: ', '.join(f'`{k}`' + (f' ×{v}' if v > 1 else '') for k, v in c.items())
    line = f'* **{p}** ({sum(direct.values())} listed + {sum(dep.values())} callee contract instances): {fmt(direct)}'
    if dep:
        line += f'; *through the callee closure / layering:* {fmt(dep)}'
    out.append(line)
s = open('/verif/DESIGN.md').read()
a, b = s.index('<!-- contract-lists -->'), s.index('<!-- /contract-lists -->')
s = s[:a] + '<!-- contract-lists -->\n' + '\n'.join(out) + '\n' + s[b:]
open('/verif/DESIGN.md', 'w').write(s)
print('ok')
