"""Hand-instantiated lemmas (quantifier-free: goals skolemised, hypotheses instantiated at the skolems) checked with z3 on every run.
They connect per-function postconditions to the property-level statements."""
import time
import z3


def _check(name, hyps, goal, timeout=10000):
    s = z3.Solver()
    s.set('timeout', timeout)
    s.add(*hyps)
    s.add(z3.Not(goal))
    t = time.time()
    r = s.check()
    return {'key': name, 'status': {'unsat': 'discharged', 'sat': 'refuted'}.get(str(r), 'unknown'), 'seconds': round(time.time() - t, 3),
            'solver': 'z3-5.1', 'model': str(s.model())[:500] if r == z3.sat else None}


def c07_identity_lemmas():
    """I1 within one set.  State: membership predicate, name(o), copy(o), cnt(n) = number of members named n.
    Invariant  M: every member o has 0 <= copy(o) < cnt(name(o));  U: two distinct members with equal names have different copies.
    Step (EFLRItem.__init__ + _compute_copy_number, proved in c_registry.py): a new object s that is not a member, with
    copy(s) == cnt(name(s)) (the number of other same-named members), is appended; cnt'(m) == cnt(m) + (1 if m == name(s) else 0)."""
    I = z3.IntSort()
    member = z3.Function('member', I, z3.BoolSort())
    name = z3.Function('name', I, I)
    copy = z3.Function('copy', I, I)
    cnt = z3.Function('cnt', I, I)
    s, o, p = z3.Ints('s o p')
    member2 = lambda x: z3.Or(member(x), x == s)
    cnt2 = lambda m: cnt(m) + z3.If(m == name(s), 1, 0)
    M = lambda x: z3.Implies(member(x), z3.And(0 <= copy(x), copy(x) < cnt(name(x))))
    U = lambda x, y: z3.Implies(z3.And(member(x), member(y), x != y, name(x) == name(y)), copy(x) != copy(y))
    step = [z3.Not(member(s)), copy(s) == cnt(name(s)), cnt(name(s)) >= 0]
    out = []
    out.append(_check('lemma[C07]:copy-number-bound-preserved(M)', step + [M(o)],
                      z3.Implies(member2(o), z3.And(0 <= copy(o), copy(o) < cnt2(name(o))))))
    out.append(_check('lemma[C07]:same-named-objects-of-a-set-get-distinct-copy-numbers(U)', step + [M(o), M(p), U(o, p), U(p, o)],
                      z3.Implies(z3.And(member2(o), member2(p), o != p, name(o) == name(p)), copy(o) != copy(p))))
    # vacuity: the step hypotheses are satisfiable
    v = z3.Solver()
    v.add(*step)
    out.append({'key': 'lemma[C07]:step-hypotheses-satisfiable', 'status': 'discharged' if v.check() == z3.sat else 'refuted', 'seconds': 0.0, 'solver': 'z3-5.1'})
    return out
