"""X-RE: translate a small subset of python `re` patterns into z3 regular expressions (over z3 strings) and decide language
equivalence of (pattern, method) pairs.  Supported: literals, escapes (\\d \\w \\s \\. ...), classes [a-z0-9_-] / [^...], '.', groups
(...), alternation |, quantifiers + * ? {m,n}, anchors ^ (only leading) and $ (only trailing; python semantics: end of string or
just before a trailing newline).  Anything else raises ValueError (=> the function is reported unsupported)."""
import z3


class P:
    def __init__(self, s):
        self.s, self.i = s, 0

    def peek(self):
        return self.s[self.i] if self.i < len(self.s) else None

    def take(self):
        c = self.s[self.i]
        self.i += 1
        return c


def _cls_range(a, b):
    return z3.Range(a, b)


def _escape(c):
    if c == 'd':
        return z3.Range('0', '9')
    if c == 'w':
        return z3.Union(z3.Range('a', 'z'), z3.Range('A', 'Z'), z3.Range('0', '9'), z3.Re('_'))
    if c == 's':
        return z3.Union(*[z3.Re(x) for x in ' \t\n\r\x0b\x0c'])
    if c in 'DWSbBAZ':
        raise ValueError(f'regex escape \\{c} not supported')
    if c == 'n':
        return z3.Re('\n')
    if c == 't':
        return z3.Re('\t')
    return z3.Re(c)


ANY = None


def any_char():
    return z3.AllChar(z3.ReSort(z3.StringSort()))


def parse_alt(p):
    alts = [parse_seq(p)]
    while p.peek() == '|':
        p.take()
        alts.append(parse_seq(p))
    return alts[0] if len(alts) == 1 else z3.Union(*alts)


def parse_seq(p):
    items = []
    while p.peek() is not None and p.peek() not in '|)':
        a = parse_atom(p)
        while p.peek() is not None and p.peek() in '+*?{':
            q = p.take()
            if q == '+':
                a = z3.Plus(a)
            elif q == '*':
                a = z3.Star(a)
            elif q == '?':
                a = z3.Option(a)
            else:
                spec = ''
                while p.peek() != '}':
                    spec += p.take()
                p.take()
                lo, _, hi = spec.partition(',')
                lo = int(lo)
                if ',' not in spec:
                    a = z3.Loop(a, lo, lo)
                elif hi == '':
                    a = z3.Concat(z3.Loop(a, lo, lo), z3.Star(a)) if lo else z3.Star(a)
                else:
                    a = z3.Loop(a, lo, int(hi))
            if p.peek() == '?':
                p.take()        # lazy quantifier: same language
        items.append(a)
    if not items:
        return z3.Re('')
    return items[0] if len(items) == 1 else z3.Concat(*items)


def parse_atom(p):
    c = p.take()
    if c == '(':
        if p.peek() == '?':
            p.take()
            if p.take() != ':':
                raise ValueError('regex group extension not supported')
        r = parse_alt(p)
        if p.take() != ')':
            raise ValueError('regex: unbalanced group')
        return r
    if c == '[':
        neg = False
        if p.peek() == '^':
            p.take()
            neg = True
        parts = []
        first = True
        while p.peek() != ']' or first:
            first = False
            a = p.take()
            if a == '\\':
                parts.append(_escape(p.take()))
                continue
            if p.peek() == '-' and p.i + 1 < len(p.s) and p.s[p.i + 1] != ']':
                p.take()
                b = p.take()
                if b == '\\':
                    b = p.take()
                parts.append(_cls_range(a, b))
            else:
                parts.append(z3.Re(a))
        p.take()
        u = parts[0] if len(parts) == 1 else z3.Union(*parts)
        if neg:
            return z3.Intersect(any_char(), z3.Complement(u))
        return u
    if c == '.':
        return z3.Intersect(any_char(), z3.Complement(z3.Re('\n')))
    if c == '\\':
        return _escape(p.take())
    if c in '^$':
        raise ValueError('regex anchor in the middle of a pattern not supported')
    return z3.Re(c)


def language(pattern, method):
    """z3 regex of the set of strings s for which re.compile(pattern).<method>(s) is not None"""
    lead = pattern.startswith('^')
    body = pattern[1:] if lead else pattern
    trail = body.endswith('$') and not body.endswith('\\$')
    if trail:
        body = body[:-1]
    p = P(body)
    r = parse_alt(p)
    if p.i != len(body):
        raise ValueError('regex: trailing input')
    anystr = z3.Star(any_char())
    if trail:
        r = z3.Concat(r, z3.Option(z3.Re('\n')))
    if method == 'fullmatch':
        return r
    if method == 'match':
        return r if trail else z3.Concat(r, anystr)
    if method == 'search':
        left = r if lead else z3.Concat(anystr, r)
        return left if trail else z3.Concat(left, anystr)
    raise ValueError(f'regex method {method}')


def equivalent(p1, m1, p2, m2, timeout_ms=20000):
    """True / False / None(unknown)"""
    a, b = language(p1, m1), language(p2, m2)
    x = z3.String('x')
    s = z3.Solver()
    s.set('timeout', timeout_ms)
    s.add(z3.InRe(x, a) != z3.InRe(x, b))
    r = s.check()
    if r == z3.unsat:
        return True
    if r == z3.sat:
        return False
    return None


def witness(p1, m1, p2, m2):
    a, b = language(p1, m1), language(p2, m2)
    x = z3.String('x')
    s = z3.Solver()
    s.set('timeout', 20000)
    s.add(z3.InRe(x, a) != z3.InRe(x, b))
    if s.check() == z3.sat:
        return s.model()[x].as_string()
    return None
