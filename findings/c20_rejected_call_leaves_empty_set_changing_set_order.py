"""Witness for the open finding (C20): an add_* call that is rejected by the item constructor has already created and registered its
(empty) set.  The set itself is never written while empty, but it keeps its place in the registry: when an object of that type is
added later, its set comes out EARLIER in the file than in a specification in which the rejected call was never made.
Exit 1 while it reproduces."""
import os
import sys
import tempfile
from datetime import datetime
import numpy as np
from dliswriter import DLISFile


def build(with_rejected_call):
    df = DLISFile(); lf = df.add_logical_file(); lf.add_origin('O', file_set_number=1, creation_time=datetime(2020, 1, 2, 3, 4, 5))
    ch = lf.add_channel('A', data=np.arange(3.0))
    lf.add_frame('F', channels=(ch,))
    if with_rejected_call:
        try:
            lf.add_zone('Z', domain='NO-SUCH-DOMAIN')        # value outside the enumeration: rejected
        except ValueError:
            pass
    lf.add_parameter('P', values=[1])
    lf.add_zone('Z')
    return df


def set_order(df):
    d = tempfile.mkdtemp(); p = os.path.join(d, 'x.dlis')
    try:
        df.write(p)
        b = open(p, 'rb').read()
    finally:
        os.path.exists(p) and os.remove(p); os.rmdir(d)
    return b.find(b'\x04ZONE') < b.find(b'\x09PARAMETER'), b


zone_first_after_rejection, b1 = set_order(build(True))
zone_first_fresh, b2 = set_order(build(False))
print('ZONE set before PARAMETER set: after a rejected add_zone =', zone_first_after_rejection, '; fresh specification =', zone_first_fresh)
sys.exit(1 if b1 != b2 else 0)
