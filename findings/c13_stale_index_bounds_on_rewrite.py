"""Witness for the open finding P10 (C13/C14): the same specification written twice with different data keeps INDEX-MIN/INDEX-MAX of the
first write (they look 'user supplied' to the second write).  Exit 1 while it reproduces."""
import os, sys, tempfile
import numpy as np
from dliswriter import DLISFile
df = DLISFile(); lf = df.add_logical_file(); lf.add_origin('O', file_set_number=1)
d = lf.add_channel('DEPTH'); x = lf.add_channel('X')
fr = lf.add_frame('F', channels=(d, x), index_type='BOREHOLE-DEPTH')
t = tempfile.mkdtemp()
df.write(os.path.join(t, 'a.dlis'), data={'DEPTH': np.arange(10, 20, dtype=np.float64), 'X': np.zeros(10)}, output_chunk_size=2 ** 16)
df.write(os.path.join(t, 'b.dlis'), data={'DEPTH': np.arange(100, 110, dtype=np.float64), 'X': np.zeros(10)}, output_chunk_size=2 ** 16)
print('index_min after second write:', fr.index_min.value, '(data minimum 100)')
sys.exit(1 if fr.index_min.value != 100 else 0)
