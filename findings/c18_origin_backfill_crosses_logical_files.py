"""Witness for an open finding (C18/C07): the first add_origin of a logical file back-fills its origin reference into every object of the
PHYSICAL file that has none yet - including objects of another logical file.  Exit 1 while it reproduces."""
import sys
from dliswriter import DLISFile
df = DLISFile()
lf1 = df.add_logical_file(fh_id='LF1'); lf2 = df.add_logical_file(fh_id='LF2')
z1 = lf1.add_zone('Z1', set_name='ZONES-1')              # logical file 1 has no origin yet: reference stays None
lf2.add_origin('O2', origin_reference=5, file_set_number=1, set_name='ORIGINS-2')
print('origin reference of the object of logical file 1 after logical file 2 got its origin:', z1.origin_reference)
sys.exit(1 if z1.origin_reference == 5 else 0)
