"""Differential validation of the axiomatised externals (DESIGN.md section 4) against the installed interpreter and libraries.
Bounded evidence ABOUT THE AXIOMS (exhaustive where the domain is finite), not proof.  Prints one JSON object."""
import json, os, random, struct, sys
import numpy as np

seed = int(os.environ.get('VERIF_SEED', '0') or 0)
rnd = random.Random(seed)
res = {'checks': {}, 'violations': []}


def record(name, n, bad):
    res['checks'][name] = {'evaluations': n, 'failures': len(bad)}
    for b in bad[:3]:
        res['violations'].append({'axiom': name, 'input': b})


# X-ROUND: round(us / 1000) closed form used by pyvc (exhaustive)
bad = []
for us in range(1000000):
    q, r = divmod(us, 1000)
    c = q if r < 500 else (q + 1 if r > 500 else (q if q % 2 == 0 else q + 1))
    if round(us / 1000) != c:
        bad.append(us)
record('X-ROUND round(us/1000) closed form, 0 <= us < 10**6 (exhaustive)', 1000000, bad)

# X-STRUCT: big-endian integer formats: raises struct.error iff out of range, else two's complement big-endian bytes
bad, n = [], 0
for fmt, size, signed in (('>B', 1, False), ('>H', 2, False), ('>I', 4, False), ('>b', 1, True), ('>h', 2, True), ('>i', 4, True)):
    lo, hi = (-(1 << (8 * size - 1)), (1 << (8 * size - 1)) - 1) if signed else (0, (1 << (8 * size)) - 1)
    vals = {lo - 2, lo - 1, lo, lo + 1, -1, 0, 1, hi - 1, hi, hi + 1, hi + 2} | {rnd.randint(lo - 1000, hi + 1000) for _ in range(2000)}
    if size == 1:
        vals |= set(range(lo - 3, hi + 4))
    for v in vals:
        n += 1
        try:
            b = struct.Struct(fmt).pack(v)
            ok = lo <= v <= hi and b == v.to_bytes(size, 'big', signed=signed)
        except struct.error:
            ok = not (lo <= v <= hi)
        if not ok:
            bad.append([fmt, v])
record('X-STRUCT integer formats >B >H >I >b >h >i', n, bad)

# X-STR: str(int) length by magnitude and ASCII; encode('ascii') raises iff some code point > 127; ' ' * n
bad, n = [], 0
for v in [0, 9, 10, 99, 100, 9999, 10000, 99999, 100000, -1, -9, -10, -999, -1000] + [rnd.randint(-10 ** 17, 10 ** 17) for _ in range(3000)]:
    n += 1
    s = str(v)
    digits = len(str(abs(v)))
    if len(s) != digits + (1 if v < 0 else 0) or any(ord(c) > 127 for c in s):
        bad.append(v)
for _ in range(3000):
    n += 1
    s = ''.join(chr(rnd.choice([rnd.randint(0, 127), rnd.randint(0, 127), rnd.randint(128, 0x2fff)])) for _ in range(rnd.randint(0, 6)))
    try:
        b = s.encode('ascii')
        ok = all(ord(c) < 128 for c in s) and list(b) == [ord(c) for c in s]
    except UnicodeEncodeError:
        ok = any(ord(c) > 127 for c in s)
    if not ok:
        bad.append(s)
for k in range(-3, 40):
    n += 1
    if k * ' ' != ' ' * max(k, 0) or len(k * ' ') != max(k, 0) or k * b'\x05' != bytes([5] * max(k, 0)):
        bad.append(k)
record('X-STR str(int) / encode(ascii) / sequence repetition', n, bad)

# A-PY: bit operations through 64-bit vectors for 0 <= x, y < 2**62; floor division / modulo identities used by the encoding
bad, n = [], 0
for _ in range(5000):
    x, y = rnd.randint(0, (1 << 62) - 1), rnd.randint(0, (1 << 62) - 1)
    n += 1
    m = (1 << 64) - 1
    if (x | y) != ((x | y) & m) or (x & y) != ((x & y) & m) or (x ^ y) != ((x ^ y) & m):
        bad.append([x, y])
    a, b = rnd.randint(-10 ** 6, 10 ** 6), rnd.randint(1, 10 ** 4)
    if a != (a // b) * b + a % b or not (0 <= a % b < b) or a // -b != (-a) // b or a % -b != -((-a) % b):
        bad.append([a, b])
record('A-PY bit operations in the 62-bit window; floor div/mod identities', n, bad)

# X-NP: the numpy facts used as axioms
bad, n = [], 0
for dt in ('<i2', '>i2', '<f8', '>f8', '<u4', '>u4', 'u1', 'i1', '<f4', '>f4'):
    a = (np.arange(24) % 7).astype(dt)
    for (lo, hi) in ((0, 5), (3, 9), (0, 24), (7, 7), (20, 24)):
        n += 1
        v = a[lo:hi]
        if not (v.base is a or lo == hi) or v.shape[0] != hi - lo or (hi > lo and v[0] != a[lo]):
            bad.append(['slice', dt, lo, hi])
    z = np.zeros(4, dtype=[('A', np.dtype(dt).newbyteorder('=')), ('B', np.dtype(dt).newbyteorder('='), 3)])
    n += 1
    if z.base is not None or z['A'].any():
        bad.append(['zeros', dt])
    z['A'] = a[2:6]
    z['B'] = np.arange(12).reshape(4, 3)
    before = a.tobytes()
    row = z[1]
    chunks = [s.byteswap().tobytes() for s in row]
    n += 1
    exp = np.array(a[3], dtype=np.dtype(dt).newbyteorder('>')).tobytes() + np.arange(3, 6).astype(np.dtype(dt).newbyteorder('>')).tobytes()
    if b''.join(chunks) != exp or a.tobytes() != before:
        bad.append(['row-bytes', dt])
    s0 = np.array([1, 2, 3], dtype=np.dtype(dt).newbyteorder('='))
    keep = s0.tobytes()
    s0.byteswap()
    n += 1
    if s0.tobytes() != keep:
        bad.append(['byteswap-copies', dt])
    n += 1
    if np.dtype(dt).newbyteorder('=').byteorder not in ('=', '|'):
        bad.append(['newbyteorder', dt])
names = np.dtype([('X', '<f8'), ('Y', '<i4', 2)])
n += 1
if names.names != ('X', 'Y') or names['Y'].shape != (2,) or names['X'] != np.dtype('<f8'):
    bad.append(['np.dtype(list)'])
if sys.byteorder != 'little':
    bad.append(['X-ENV host byte order', sys.byteorder])
record('X-NP slicing views / np.zeros fresh / field assignment / row iteration + byteswap().tobytes() big-endian / byteswap copies / newbyteorder / structured dtype', n, bad)

# X-NPSTEP: the step model of pyvc/npstats.py
import itertools as _it
n, bad = 0, []
_rng = np.random.default_rng(7)
_arrs = [np.array(t, dtype=np.float64) for k in (2, 3, 4) for t in _it.product([-2.0, -0.5, 0.0, 0.25, 1.0, 3.0], repeat=k)]
_arrs += [np.cumsum(_rng.choice([1.0, 1.01, 1.03, 0.97, -1.0, 0.0, 2.5], size=int(_rng.integers(2, 12)))) for _ in range(400)]
_arrs += [np.array(t, dtype=np.int64) for t in _it.product([-3, 0, 1, 4], repeat=3)]
for x in _arrs:
    d = np.diff(x)
    u = np.unique(d)
    steps = [float(x[i + 1]) - float(x[i]) for i in range(len(x) - 1)]
    lo, hi = min(steps), max(steps)
    n += 1
    if d.tolist() != steps or u.tolist() != sorted(set(steps)) or u[0] != lo or u[-1] != hi or len(u) != len(set(steps)) or (len(u) == 1) != (lo == hi):
        bad.append(['diff/unique', x.tolist()])
    m = np.median(d).item()
    if not (lo <= m <= hi and lo <= np.mean(d).item() <= hi and lo <= np.median(u).item() <= hi):
        bad.append(['median/mean within range', x.tolist()])
    for pred in (lambda a: a == 0, lambda a: a >= 0, lambda a: a <= 0, lambda a: a > 0.5, lambda a: (1 - a / (m if m else 1.0)) ** 2 < 0.001):
        for arr in (d, u):
            r = bool(pred(arr).all())
            if r != all(bool(pred(np.float64(s))) for s in steps):
                bad.append(['all() is the conjunction over the elements', x.tolist()])
            if r and not (bool(pred(np.float64(lo))) and bool(pred(np.float64(hi)))):
                bad.append(['all() => least and greatest', x.tolist()])
    n += 1
record('X-NPSTEP np.diff / np.unique sorted distinct / median, mean within range / element-wise predicate + all()', n, bad)

print(json.dumps(res))
