"""Contracts: wiring of the specification objects (C09 header, C01 label "as configured", C18 creation order, C07/C09 defining origin) -
the small functions that several other contracts abstract by their values (`channels`, `frames`, `origins`, `defining_origin`,
`default_origin_reference`, `get_all_items_for_set_type`) or stub (`LogicalFile(...)`, `_set_up_sul_or_fh`)."""

CONTRACTS = {}
MODELS = {}

# ---------------------------------------------------------------------------------------------- registry iteration
ZI = {'cls': 'ZoneItem', 'fields': {'name': 'str'}}


def _zs(n):
    return {'cls': 'ZoneSet', 'fields': {'set_name': 'str?', '_eflr_item_list': {'list': [ZI] * n}}}


MODELS.update({'WZSet2': _zs(2), 'WZSet1': _zs(1), 'WZSet0': _zs(0)})
CONTRACTS['EFLRSetsDict.get_all_items_for_set_type'] = dict(
    props=['C07', 'C09', 'C18'],
    self_fields={'__store__': 'clsdict{ZoneSet:namedict{None:obj:WZSet2,N2:obj:WZSet0,N3:obj:WZSet1},AxisSet:namedict{None:obj:WZSet1}}'},
    params={'eflr_set_type': 'cls:ZoneSet'}, returns='none',
    ensures=[('all-objects-of-all-sets-of-that-type-in-registration-order-and-no-others',
              "__out__ == (self[ZoneSet][None]._eflr_item_list[0], self[ZoneSet][None]._eflr_item_list[1], self[ZoneSet]['N3']._eflr_item_list[0])")],
    modifies=[])

# ---------------------------------------------------------------------------------------------- properties of a logical file
ORGM = {'cls': 'OriginItem', 'fields': {'name': 'str', '_origin_reference': 'int?'}}
_GET = dict(returns_expr_on_receiver='items_value', pure=True, capture=True)
for _n in (0, 2):
    _sf = {'_eflr_sets': {'cls': 'EFLRSetsDict', 'fields': {'items_value': {'list': [ORGM] * _n}}}}
    CONTRACTS[f'LogicalFile.defining_origin[{_n}-origins]'] = dict(
        target='LogicalFile.defining_origin', kind='get', props=['C09', 'C07'], self_fields=_sf, params={},
        returns=(ORGM if _n else 'none'), stubs={'get_all_items_for_set_type': _GET}, modifies=[],
        ensures=[('the-defining-origin-is-the-FIRST-origin-of-this-logical-file', 'result is self._eflr_sets.items_value[0]' if _n else 'result is None'),
                 ('origins-are-looked-up-in-the-registry-of-the-logical-file-itself', "stub_call_get_all_items_for_set_type['eflr_set_type'] == OriginSet")])
    CONTRACTS[f'LogicalFile.default_origin_reference[{_n}-origins]'] = dict(
        target='LogicalFile.default_origin_reference', kind='get', props=['C09', 'C07'], self_fields=_sf, params={},
        returns='int?', stubs={'get_all_items_for_set_type': _GET}, modifies=[],
        ensures=[('default-origin-reference-is-the-reference-of-the-defining-origin',
                  'result == self._eflr_sets.items_value[0]._origin_reference' if _n else 'result is None')])
for _prop, _setcls in (('channels', 'ChannelSet'), ('frames', 'FrameSet'), ('origins', 'OriginSet')):
    CONTRACTS[f'LogicalFile.{_prop}'] = dict(
        kind='get', props=['C18', 'C09', 'C07'],
        self_fields={'_eflr_sets': {'cls': 'EFLRSetsDict', 'fields': {'items_value': {'list': [ORGM, ORGM]}}}}, params={},
        returns={'list': [ORGM, ORGM]}, stubs={'get_all_items_for_set_type': _GET}, modifies=[],
        ensures=[('exactly-the-objects-registered-in-this-logical-file-in-order',
                  'len(result) == 2 and result[0] is self._eflr_sets.items_value[0] and result[1] is self._eflr_sets.items_value[1]'),
                 ('looked-up-by-the-right-set-type-in-the-registry-of-the-logical-file-itself', f"stub_call_get_all_items_for_set_type['eflr_set_type'] == {_setcls}")])

# ---------------------------------------------------------------------------------------------- header / label construction
FHM = {'cls': 'FileHeaderItem', 'fields': {'header_id': 'str', 'sequence_number': 'int'}}
CONTRACTS['_set_up_sul_or_fh[given]'] = dict(
    target='_set_up_sul_or_fh', props=['C09', 'C01'],
    params={'item_class': 'cls:FileHeaderItem', 'item': 'oneof[obj:WFHM,obj:WPlainAttr]', 'kwargs': {'header_id': 'str'}}, returns=FHM,
    raises={'TypeError': 'not isinstance(item, FileHeaderItem)'}, modifies=[], exc_modifies=[],
    ensures=[('an-object-supplied-by-the-user-is-used-as-it-is', 'result is item')])
CONTRACTS['_set_up_sul_or_fh[made]'] = dict(
    target='_set_up_sul_or_fh', props=['C09', 'C01'],
    params={'item_class': 'cls:FileHeaderItem', 'item': 'none', 'kwargs': {'header_id': 'str', 'sequence_number': 'int', 'identifier': 'str', 'parent': 'opq:eflrset'}},
    returns=FHM, stubs={'__init__': dict(returns='none', raises=True, capture=True)}, may_raise=['StubException'],
    ensures=[('every-keyword-reaches-the-constructor-unchanged',
              "stub_call_init['header_id'] == kwargs['header_id'] and stub_call_init['sequence_number'] == kwargs['sequence_number'] "
              "and stub_call_init['identifier'] == kwargs['identifier'] and stub_call_init['parent'] is kwargs['parent']")])

MODELS.update({'WFHM': FHM, 'WPlainAttr': {'cls': 'Attribute', 'fields': {}}, 'WSUL': {'cls': 'StorageUnitLabel', 'fields': {}}})
DF = {'cls': 'DLISFile', 'fields': {}}
# (the physical file's set registry is given concretely - empty - so that a constructor that registers or looks up anything in it is seen
#  by the frame condition: C09 "a FILE-HEADER record holding exactly one object" needs a header set of the logical file's own)
DF_REG = {'cls': 'DLISFile', 'fields': {'_eflr_sets': {'cls': 'EFLRSetsDict', 'fields': {'__store__': 'clsdict{}'}}}}
CONTRACTS['LogicalFile.__init__'] = dict(
    props=['C09', 'C18'], self_fields={},
    params={'physical_file': DF_REG, 'file_header': 'oneof[none,obj:WFHM]', 'fh_id': 'str', 'fh_identifier': 'str', 'fh_sequence_number': 'int'}, returns='none',
    stubs={'_set_up_sul_or_fh': dict(returns=FHM, raises=True, capture=True)}, may_raise=['StubException', 'ValueError', 'UnicodeEncodeError'],
    ensures=[('header-built-from-the-users-id-identifier-and-sequence-number',
              "implies(file_header is None, stub_call_set_up_sul_or_fh['kwargs']['header_id'] == fh_id and stub_call_set_up_sul_or_fh['kwargs']['identifier'] == fh_identifier "
              "and stub_call_set_up_sul_or_fh['kwargs']['sequence_number'] == fh_sequence_number)"),
             ('a-header-object-supplied-by-the-user-is-used-as-it-is', 'implies(file_header is not None, self.file_header_item is file_header)'),
             ('the-header-of-this-logical-file-is-the-one-built', 'implies(file_header is None, self.file_header_item is stub_result__set_up_sul_or_fh)'),
             ('belongs-to-the-physical-file', 'self.physical_file is physical_file'),
             ('starts-without-data-and-without-no-format-records', 'len(self._data_dict) == 0 and len(self._no_format_frame_data) == 0'),
             ('own-empty-registry', 'len(self._eflr_sets) == 0')],
    modifies=['self.*'], exc_modifies=['self.*'])

CONTRACTS['DLISFile.add_logical_file'] = dict(
    props=['C18', 'C09'], self_fields={'logical_files': {'list': [{'cls': 'LogicalFile', 'fields': {}}]}},
    params={'file_header': 'oneof[none,obj:WFHM]', 'fh_id': 'str', 'fh_identifier': 'str', 'fh_sequence_number': 'int'},
    returns={'cls': 'LogicalFile', 'fields': {}},
    stubs={'__init__': dict(returns='none', raises=True, capture=True)}, may_raise=['StubException'],
    ensures=[('logical-files-are-kept-in-creation-order', 'len(self.logical_files) == 2 and self.logical_files[0] is old(self.logical_files[0]) and self.logical_files[1] is result'),
             ('header-arguments-reach-the-logical-file',
              "stub_call_init['physical_file'] is self and stub_call_init['file_header'] is file_header and stub_call_init['fh_id'] == fh_id "
              "and stub_call_init['fh_identifier'] == fh_identifier and stub_call_init['fh_sequence_number'] == fh_sequence_number")],
    modifies=['self.logical_files'],
    exc_ensures=[('a-rejected-logical-file-is-not-kept', 'len(self.logical_files) == 1')], exc_modifies=[])

SULM2 = {'cls': 'StorageUnitLabel', 'fields': {}}
CONTRACTS['DLISFile.__init__'] = dict(
    props=['C01', 'C18'], self_fields={},
    params={'storage_unit_label': 'oneof[none,obj:WSUL]', 'set_identifier': 'str', 'sul_sequence_number': 'int', 'max_record_length': 'int'}, returns='none',
    stubs={'_set_up_sul_or_fh': dict(returns=SULM2, raises=True, capture=True)}, may_raise=['StubException'],
    ensures=[('label-configured-from-the-constructor-arguments',
              "stub_call_set_up_sul_or_fh['item'] is storage_unit_label and stub_call_set_up_sul_or_fh['kwargs']['set_identifier'] == set_identifier "
              "and stub_call_set_up_sul_or_fh['kwargs']['sequence_number'] == sul_sequence_number and stub_call_set_up_sul_or_fh['kwargs']['max_record_length'] == max_record_length"),
             ('the-files-label-is-that-object', 'self._sul is stub_result__set_up_sul_or_fh'),
             ('no-logical-files-yet', 'len(self.logical_files) == 0'), ('empty-registry', 'len(self._eflr_sets) == 0')],
    modifies=['self.*'], exc_modifies=['self.*'])

# ---------------------------------------------------------------------------------------------- add_origin: the first origin is back-filled (C07)
# "Every object's origin field equals the origin reference of an ORIGIN object of that logical file (the defining origin unless the user
# chose another)": objects created before the first origin have no origin yet; the first add_origin gives them its reference.
_IT = lambda ref: {'cls': 'ZoneItem', 'fields': {'name': 'str', '_origin_reference': ref}}
_SET2 = {'cls': 'ZoneSet', 'fields': {'set_name': 'none', '_eflr_item_list': {'list': [_IT('none'), _IT('int')]}}}
MODELS['WBackSet'] = _SET2
_NEWO = {'cls': 'OriginItem', 'fields': {'name': 'str', '_origin_reference': 'int'}}
MODELS['WNewOrigin'] = _NEWO
_fn_params = None
from pyvc.source import Source as _Source
_ao = _Source().classes['LogicalFile'].methods['add_origin']['plain']
_AO_PARAMS = {a.arg: 'none' for a in _ao.args.args[1:]}
_AO_PARAMS.update({'name': 'str', 'origin_reference': 'int?'})
CONTRACTS['LogicalFile.add_origin[first-origin-back-fill]'] = dict(
    target='LogicalFile.add_origin', props=['C07', 'C09', 'C20', 'C18'],
    # C20: a rejected add_origin (the constructor raises) must not have handed out its reference to the waiting objects
    exc_modifies=[],
    self_fields={'physical_file': {'cls': 'DLISFile', 'fields': {'_eflr_sets': {'cls': 'EFLRSetsDict', 'fields': {'__store__': 'clsdict{}'}}}},
                 '_eflr_sets': {'cls': 'EFLRSetsDict', 'fields': {'__store__': 'clsdict{ZoneSet:namedict{None:obj:WBackSet}}', 'origins_value': {'list': [_NEWO]}}},
                 'file_header_item': {'cls': 'FileHeaderItem', 'fields': {'header_id': 'str', '_origin_reference': 'none'}}},
    params=_AO_PARAMS, returns=_NEWO,
    # the new origin is the one the (abstract) registry lookup reports as the only origin of the logical file
    stubs={'get_or_make_set': dict(returns='opq:eflrset', pure=True), 'try_add_set': dict(returns='bool'),
           'get_all_items_for_set_type': dict(returns_expr_on_receiver='origins_value', pure=True),
           'next_available_origin_ref': dict(returns='int', raises=True, pure=True),
           # the abstract item constructor keeps the origin reference it is given (proved for the real one: EFLRItem.__init__ 'origin-kept')
           '__init__': dict(returns='none', raises=True, set_receiver_fields={'_origin_reference': 'origin_reference'})},
    requires=['origin_reference is None or origin_reference > 0'], inline_callees=['EFLRSet.get_all_eflr_items'],
    may_raise=['AnyException', 'StubException', 'TypeError'],
    ensures=[('objects-without-an-origin-get-the-reference-of-the-first-origin',
              "self._eflr_sets[ZoneSet][None]._eflr_item_list[0]._origin_reference == result.origin_reference"),
             ('objects-for-which-the-user-chose-an-origin-keep-it',
              "self._eflr_sets[ZoneSet][None]._eflr_item_list[1]._origin_reference == old(self._eflr_sets[ZoneSet][None]._eflr_item_list[1]._origin_reference)"),
             ('the-file-header-gets-it-too', 'self.file_header_item._origin_reference == result.origin_reference')])

# C18: the back-fill of the first origin must stay inside the logical file.  It does not (open finding, also witnessed by
# findings/c18_origin_backfill_crosses_logical_files.py): the second loop walks the registry of the PHYSICAL file.
MODELS['WOtherSet'] = {'cls': 'ZoneSet', 'fields': {'set_name': 'str', '_eflr_item_list': {'list': [_IT('none')]}}}
_c = dict(CONTRACTS['LogicalFile.add_origin[first-origin-back-fill]'])
_c['props'] = ['C18']
_c['self_fields'] = dict(_c['self_fields'])
_c['self_fields']['physical_file'] = {'cls': 'DLISFile', 'fields': {'_eflr_sets': {'cls': 'EFLRSetsDict', 'fields': {
    '__store__': 'clsdict{ZoneSet:namedict{OTHER:obj:WOtherSet}}'}}}}
_c['ensures'] = [('objects-of-other-logical-files-keep-their-missing-origin@C18',
                  "self.physical_file._eflr_sets[ZoneSet]['OTHER']._eflr_item_list[0]._origin_reference is None")]
CONTRACTS['LogicalFile.add_origin[back-fill-stays-in-the-logical-file]'] = _c

# C14: looking at the specification must not change it.  Asking for the objects of a set type that has no set yet used to register
# the type in the registry (indexing a defaultdict), which gave later sets of that type an earlier place in the file (fixed: F16).
CONTRACTS['EFLRSetsDict.get_all_items_for_set_type[type-without-sets]'] = dict(
    target='EFLRSetsDict.get_all_items_for_set_type', props=['C14', 'C09'],
    self_fields={'__store__': 'clsdict{AxisSet:namedict{None:obj:WZSet1}}'},
    params={'eflr_set_type': 'cls:ZoneSet'}, returns='none',
    ensures=[('no-objects', '__out__ == ()'), ('the-look-up-registers-nothing', 'len(self) == 1')],
    modifies=[])

# C12 "no origin, channels or frames - raise an exception": a DLISFile without any logical file has none of them (fixed: F17)
CONTRACTS['DLISFile.generate_logical_records[no-logical-files]'] = dict(
    target='DLISFile.generate_logical_records', props=['C12', 'C09'],
    self_fields={'logical_files': {'list': []}, '_eflr_sets': {'cls': 'EFLRSetsDict', 'fields': {'__store__': 'clsdict{}'}}},
    params={'chunk_size': 'int?', 'data': 'none', 'kwargs': {}}, returns={'cls': 'SizedGenerator', 'fields': {}},
    stubs={'generator': dict(returns='opq:gen')},
    raises={'RuntimeError': 'True'}, ensures=[])

# DictDataWrapper.__init__ (the summary in c_data.py is what _make_multi_frame_data relies on): the parent constructor gets the SAME
# dict object (C19: no copy is needed because nothing writes to it; C11), the caller's mapping - or the identity mapping over the keys of
# the dict when none is given - and the row window unchanged
for _mp, _nm in (('dict{K0:const:"K1",K1:const:"K0"}', 'mapping-given'), ('none', 'default-mapping')):
    CONTRACTS[f'DictDataWrapper.__init__[{_nm}]'] = dict(
        target='DictDataWrapper.__init__', props=['C11', 'C19', 'C03'], self_fields={}, self_inv=[],
        params={'data_dict': 'dict{K0:opq:ndarray,K1:opq:ndarray}', 'mapping': _mp, 'known_dtypes': 'opq:known', 'from_idx': 'int', 'to_idx': 'int?'}, returns='none',
        setup=['data_dict_in = data_dict', 'mapping_in = mapping', 'from_idx_in = from_idx', 'to_idx_in = to_idx'],
        may_raise=['ValueError', 'RuntimeError', 'TypeError'],
        call_requires={'SourceDataWrapper.__init__': [
            ('the-wrapper-reads-the-dict-it-was-given', 'data_source is data_dict_in'),
            ('window-forwarded', 'from_idx == from_idx_in and (to_idx == to_idx_in if to_idx_in is not None else to_idx is None)'),
            ('mapping-forwarded-or-identity-over-the-keys',
             ("mapping is mapping_in" if _mp != 'none' else "len(mapping) == 2 and mapping['K0'] == 'K0' and mapping['K1'] == 'K1'"))]},
        ensures=[('callers-dict-keeps-its-entries', "len(data_dict) == 2 and data_dict['K0'] is old(data_dict['K0']) and data_dict['K1'] is old(data_dict['K1'])")])
