#!/usr/bin/env python3
"""tools/round7_table.py <arrival dir> <final dir> : table of the round-7 seeded changes (between the markers seeded-table-r7 of DESIGN.md) and the
confirmed_by_me block of their meta.json, from the JSON results of tools/seeded.py (on arrival / with the final contracts; the final
result of a change that was not re-run is its arrival result)."""
import glob, json, os, re, sys
arr, fin = sys.argv[1], sys.argv[2]
rows = []
for d in sorted(glob.glob('/verif/seeded/*-[MN]/')):
    sid = os.path.basename(d.rstrip('/'))
    meta = json.load(open(d + 'meta.json'))
    prop = meta['property']
    ra = json.load(open(f'{arr}/{sid}.json')) if os.path.exists(f'{arr}/{sid}.json') and os.path.getsize(f'{arr}/{sid}.json') else None
    rf = json.load(open(f'{fin}/{sid}.json')) if os.path.exists(f'{fin}/{sid}.json') and os.path.getsize(f'{fin}/{sid}.json') else ra
    if rf is None:
        continue
    chk = rf['checks'].get(prop) or list(rf['checks'].values())[0]
    viol = [re.sub(r'^VIOLATION property=\w+ replay=\S*/replays/\w+?_', '', l).replace('.json', '') for l in chk['lines'] if l.startswith('VIOLATION')]
    und = [l for l in chk['lines'] if l.startswith('UNDECIDED')]
    replayed = any(l.startswith('VIOLATION') and 'no-failing-input-found' not in l for l in chk['lines'])
    meta['confirmed_by_me'] = {'patch_applies_to_current_tree': rf.get('patch_applies'), 'demo_exit_unpatched': rf.get('demo_base_exit'), 'demo_exit_patched': rf.get('demo_mut_exit'),
                               'check_exit_on_arrival': (ra['checks'].get(prop) or {}).get('exit') if ra else None, 'check_exit_patched': {k: v['exit'] for k, v in rf['checks'].items()},
                               'first_violations': viol[:4], 'undecided': [u[:200] for u in und[:2]] if chk['exit'] == 2 else [],
                               'counterexample_replayed_on_real_code': replayed,
                               'ran': f'tools/seeded.py seeded/{sid} (scratch copy of /repo with patch.diff applied; demo.py under /venv/bin/python; ./check {prop} --tier quick with PYVC_SRC=<scratch>)'}
    json.dump(meta, open(d + 'meta.json', 'w'), indent=1)
    summ = re.sub(r'\s+', ' ', meta.get('summary') or '')[:170].replace('|', '/')
    first = ', '.join(viol[:2]) if viol else (re.sub(r'^UNDECIDED property=\w+ ', '', und[0])[:150] if und else '-')
    rows.append((sid, summ, first[:170].replace('|', '/'), 'replayed' if replayed else ('no input' if viol else '-'),
                 (ra['checks'].get(prop) or {}).get('exit') if ra else '-', chk['exit']))
tbl = "| id | change | first failing obligations (or why undecided) | counterexample | exit on arrival | exit now |\n|---|---|---|---|---|---|\n"
for r in rows:
    tbl += f'| {r[0]} | {r[1]} | `{r[2]}` | {r[3]} | {r[4]} | {r[5]} |\n'
s = open('/verif/DESIGN.md').read()
if '<!-- seeded-table-r7 -->' not in s:
    s = s.rstrip('\n') + '\n\n<!-- seeded-table-r7 -->\n<!-- /seeded-table-r7 -->\n'
a, b = s.index('<!-- seeded-table-r7 -->'), s.index('<!-- /seeded-table-r7 -->')
s = s[:a] + '<!-- seeded-table-r7 -->\n' + tbl + s[b:]
open('/verif/DESIGN.md', 'w').write(s)
print(len(rows), 'rows; on arrival caught', sum(1 for r in rows if r[4] == 1), 'undecided', sum(1 for r in rows if r[4] == 2), 'missed', sum(1 for r in rows if r[4] == 0),
      '; now caught', sum(1 for r in rows if r[5] == 1), 'undecided', sum(1 for r in rows if r[5] == 2), 'missed', sum(1 for r in rows if r[5] == 0))
