"""Contracts: L-ATTR - attribute, object, template and set components of explicitly formatted records (C04)."""
RC = 'RepresentationCode'

SPEC_UFS = {
    'enc_value': (('int', 'opq'), 'bytes'),          # bytes of one value in a given representation code (= write_struct, C06)
    'concat_enc': (('int', 'seq'), 'bytes'),         # concatenation of enc_value over a list of values (recursive; unfolded structurally)
    'unrepresentable': (('int', 'opq'), 'bool'),     # the value cannot be written in that code (write_struct raises)
}

OPQ_MODELS = {'val': {'__isinstance__': {}}}      # a scalar attribute value: never a list/tuple/dict (declared shape)

ATTR_FIELDS = {'_label': 'str', '_multivalued': 'bool', '_multidimensional': 'bool', '_representation_code': f'enumv:{RC}?',
               '_units': 'str?', '_value': 'none', '_converter': 'none', 'parent_eflr': 'none'}

MODELS = {'Attribute': {'fields': ATTR_FIELDS, 'inv': []}}

# value shapes: unset | scalar | flat list of symbolic length | concrete nested lists/tuples
V = 'opq:val'
SHAPES = {
    'unset': 'none', 'scalar': V, 'flat-list-n': 'seq[val]',
    'nested-2x2': f'list[list[{V}]*2]*2', 'nested-ragged': f'items[list[{V}]*2,{V},tuple[{V},{V},{V}]]',
    'nested-2x2x2': f'list[list[list[{V}]*2]*2]*2', 'tuple-3': f'tuple[{V},{V},{V}]', 'empty-list': 'list[int]*0',
}

# number of values of each shape as the strict reader counts them (leaves of the nested structure)
NV = {'unset': None, 'scalar': '1', 'flat-list-n': 'len(self._value)', 'nested-2x2': '4', 'nested-ragged': '6', 'nested-2x2x2': '8', 'tuple-3': '3',
      'empty-list': '0'}

DESC = 'result[0]'
C_BIT, R_BIT, U_BIT, V_BIT = f'({DESC} // 8) % 2', f'({DESC} // 4) % 2', f'({DESC} // 2) % 2', f'{DESC} % 2'

CONTRACTS = {
 # generic summary of the per-code contracts of c_enc.py: a deterministic function of (code, value), or an exception
 'write_struct': dict(
    props=[], axiom=True,
    params={'representation_code': f'enumv:{RC}', 'value': 'opq:val'}, returns='bytes',
    raises={'AttributeError': 'representation_code is None',
            'AnyException': 'representation_code is not None and unrepresentable(representation_code.value, value)'},
    ghost_effects={'nvals': 'nvals + 1'},
    ensures=['result == enc_value(representation_code.value, value)']),
}

def _split(s_):
    out, d, cur = [], 0, ''
    for ch in s_:
        d += ch in '[('
        d -= ch in '])'
        if ch == ',' and d == 0:
            out.append(cur)
            cur = ''
        else:
            cur += ch
    return out + ([cur] if cur else [])


def leaves(spec, expr):
    """expressions of the scalar leaves of a concrete nested shape, in the order a reader decodes them"""
    if spec.startswith('list['):
        inner, _, cnt = spec[5:].rpartition(']')
        return [l for i in range(int(cnt[1:])) for l in leaves(inner, f'{expr}[{i}]')]
    if spec.startswith('items[') or spec.startswith('tuple['):
        return [l for i, p_ in enumerate(_split(spec[6:-1])) for l in leaves(p_, f'{expr}[{i}]')]
    return [expr]


CODE = 'self._representation_code.value'
for _shape, _spec in SHAPES.items():
    _n = NV[_shape]
    _is_list = _shape not in ('unset', 'scalar')
    # the count a reader must see: explicit when != 1 (multivalued attributes only), else the default 1
    _cnt = f'(({_n}) if self._multivalued else 1)' if _n else None
    ens = [('attrib-role-no-label', f'{DESC} // 16 == 2')]
    if _shape == 'unset':
        ens += [('absent-value-not-announced', f'{V_BIT} == 0'), ('no-values-encoded', 'nvals == 0')]
    else:
        ens += [('count-bit-iff-count-differs-from-default', f'({C_BIT} == 1) == ({_cnt} != 1)'),
                ('values-announced-iff-encoded', f'({V_BIT} == 1) == (nvals > 0)'),
                ('number-of-values-equals-count', f'implies({V_BIT} == 1, nvals == {_cnt})'),
                ('zero-count-has-no-value', f'implies({_cnt} == 0, {V_BIT} == 0 and {C_BIT} == 1)')]
    ens += [('units-bit-iff-units', f'({U_BIT} == 1) == (self._units is not None and len(self._units) > 0)'),
            ('explicit-code-is-written', f'implies(self._representation_code is not None, {R_BIT} == 1)')]
    if _shape == 'scalar':
        _vals = f'enc_value({CODE}, self._value)'
    elif _shape == 'flat-list-n':
        _vals = f'concat_enc({CODE}, self._value)'
    elif _shape in ('unset', 'empty-list'):
        _vals = "b''"
    else:
        _vals = ' + '.join(f'enc_value({CODE}, {l})' for l in leaves(_spec, 'self._value'))
    if _shape != 'unset':
        ens += [('component-layout', f"implies(self._representation_code is not None, result == bytes([{DESC}]) + "
                 f"(enc_uvari({_cnt}) if {_cnt} != 1 else b'') + enc_ushort({CODE}) + "
                 f"(enc_ident(self._units) if self._units is not None and len(self._units) > 0 else b'') + "
                 f"({_vals} if {_cnt} != 0 else b''))")]
    CONTRACTS[f'Attribute.get_as_bytes[{_shape}]'] = dict(
        target='Attribute.get_as_bytes', props=['C04', 'C12'],
        self_fields=dict(ATTR_FIELDS, _value=_spec),
        params={'for_template': 'const:False'}, returns='bytes',
        ghost={'nvals': ('int', '0')},
        # type invariant of attribute state (A-TYPE): a non-multivalued attribute holds a scalar
        requires=(['self._multivalued'] if _is_list else []) + (['self._value is not None'] if _shape == 'scalar' else []),
        stubs={'inferred_representation_code': dict(returns=f'enumv:{RC}?', raises=True, pure=True)},
        may_raise=['AnyException', 'struct.error', 'ValueError', 'UnicodeEncodeError', 'AttributeError'],
        loops_in={'Attribute._write_values': [dict(inv=['nvals == len(__done)', 'implies(rc is not None, bts == at_entry(bts) + concat_enc(rc.value, __done))'], havoc_ghost=['nvals'])],
                  'Attribute.flatten_list': [dict(inv=['res == __done'], havoc_lists=['res'], list_elem='val', havoc_ghost=[])]},
        ensures=ens)

# ---------------------------------------------------------------------------------------------- inferred code is a defined / admissible one (G2)
VALID = {'Attribute': list(range(1, 28)), 'EFLRAttribute': [23, 24], 'EFLROrTextAttribute': [23, 20], 'DTimeAttribute': [21, 7, 2],
         'DimensionAttribute': [18], 'StatusAttribute': [26], 'TextAttribute': [20], 'IdentAttribute': [19],
         'NumericAttribute': list(range(1, 19))}
for _cls, _codes in VALID.items():
    _in = ' or '.join(f'result.value == {c}' for c in _codes)
    CONTRACTS[f'Attribute.inferred_representation_code[{_cls}]'] = dict(
        target='Attribute.inferred_representation_code', kind='get', self_class=_cls, props=['C04', 'C05', 'C12'],
        self_fields={'_value': 'opq:stored'}, params={}, returns=f'enumv:{RC}?',
        stubs={'_guess_repr_code': dict(returns=f'enumv:{RC}?', raises=True, pure=True)},
        raises={'RuntimeError': 'self._guess_repr_code() is not None and not (' + _in.replace('result.value', 'self._guess_repr_code().value') + ')'},
        ensures=[('inferred-code-absent-or-one-the-attribute-type-admits', f'result is None or {_in}')])
