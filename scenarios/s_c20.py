"""Scenario functions for C20 / C07: a rejected object leaves no trace in its set."""
from dliswriter import DLISFile, AttrSetup, high_compatibility_mode, high_compatibility_mode_decorator   # noqa: F401
from dliswriter.configuration import global_config                                                       # noqa: F401
from dliswriter.logical_record.eflr_types.zone import ZoneSet, ZoneItem                                  # noqa: F401


def scenario_rejected_item_then_accepted_item(name):
    s = ZoneSet()
    rejected = False
    try:
        ZoneItem(name, parent=s, domain='NOT-A-DOMAIN')
    except ValueError:
        rejected = True
    z = ZoneItem(name, parent=s)
    z2 = ZoneItem(name, parent=s)
    return rejected, z.copy_number, z2.copy_number, s.n_items
