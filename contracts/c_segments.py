"""Contracts: L-ENC (uvari), L-SEG (segments), L-VR (visible records)."""
N = '(n_bytes if n_bytes is not None else self._size - start_pos)'

LRB_FIELDS = {'_bts': 'bytes', '_size': 'int', '_lr_type_struct': 'bytes', '_is_eflr': 'bool'}
LRB_INV = ['self._size == len(self._bts)', 'len(self._lr_type_struct) == 1']

MODELS = {
    'LogicalRecordBytes': {'fields': LRB_FIELDS, 'inv': LRB_INV},
}

CONTRACTS = {
 'LogicalRecordBytes.make_segment': dict(
    props=['C01', 'C02', 'C15', 'C16'],
    # the receiver is built by the real LogicalRecordBytes.__init__; helper objects it may keep are in an arbitrary state
    self_from_init={'bts': 'bytes', 'lr_type_struct': 'bytes', 'is_eflr': 'bool'},
    params={'start_pos': 'int', 'n_bytes': 'int?'},
    requires=['0 <= start_pos', 'start_pos <= self._size', 'n_bytes is None or 0 <= n_bytes'],
    returns='tuple[bytes,int]',
    raises={'ValueError': f'(n_bytes is not None and start_pos + n_bytes > self._size) or {N} < 1',
            'struct.error': f'{N} + 4 + seg_pad({N}) > 65535'},
    ensures=[
      ('size', 'result[1] == len(result[0])'),
      ('even', 'result[1] % 2 == 0'),
      ('min16', 'result[1] >= 16'),
      ('sizeformula', f'result[1] == {N} + 4 + seg_pad({N})'),
      ('declared-length', 'result[0][0] * 256 + result[0][1] == result[1]'),
      ('attr-byte', f'result[0][2] == lrs_attr_byte(self._is_eflr, start_pos != 0, start_pos + {N} != self._size, result[1] - 4 - {N} > 0)'),
      ('no-encryption-checksum-trailing-bits', '(result[0][2] // 2) % 16 == 0'),
      ('type-byte', 'result[0][3] == self._lr_type_struct[0]'),
      ('payload', f'result[0][4:4 + {N}] == self._bts[start_pos:start_pos + {N}]'),
      ('padcount', f'(result[1] - 4 - {N}) == 0 or result[0][result[1] - 1] == result[1] - 4 - {N}'),
      ('spec', f'result[0] == seg(self._is_eflr, start_pos != 0, start_pos + {N} != self._size, self._lr_type_struct, self._bts[start_pos:start_pos + {N}])'),
    ]),
 'DLISWriter._make_visible_record': dict(
    props=['C01'],
    self_fields={'_visible_record_length': 'int', '_fmt_version': 'bytes'},
    self_inv=['20 <= self._visible_record_length', 'self._visible_record_length <= 16384', 'self._visible_record_length % 2 == 0',
              'len(self._fmt_version) == 2', 'self._fmt_version[0] == 255', 'self._fmt_version[1] == 1'],
    params={'body': 'bytes', 'size': 'int?'},
    requires=['size is None or size == len(body)'],
    returns='bytes',
    raises={'ValueError': 'len(body) + 4 > self._visible_record_length'},
    ensures=['len(result) == len(body) + 4', 'result[0] * 256 + result[1] == len(body) + 4', 'result[2] == 255', 'result[3] == 1', 'result[4:] == body'],
 ),
 'LogicalRecordBytes.make_segments': dict(
    props=['C02', 'C15', 'C01', 'C16'],
    params={'max_n_bytes': 'int'},
    requires=['max_n_bytes % 2 == 0', 'max_n_bytes <= 16376'],
    returns='none', yields='tuple[bytes,int]',
    raises={'ValueError': 'max_n_bytes < 12'},
    ghost={'acc': ('bytes', "b''"), 'k': ('int', '0'), 'done': ('bool', 'False')},
    # the reader's view of a yielded segment: strip the 4-byte header and the flagged pad bytes (count in the last byte)
    yield_requires=[('notdone', 'not done'), ('fits', 'yielded[1] <= max_n_bytes + 4'), ('len', 'yielded[1] == len(yielded[0])'),
                    ('even-min16', 'yielded[1] % 2 == 0 and yielded[1] >= 16'),
                    ('declared-length', 'yielded[0][0] * 256 + yielded[0][1] == yielded[1]'),
                    ('pred-bit', '(yielded[0][2] // 64) % 2 == (0 if k == 0 else 1)'), ('eflr-bit', 'yielded[0][2] // 128 == (1 if self._is_eflr else 0)'),
                    ('type-byte', 'yielded[0][3] == self._lr_type_struct[0]'),
                    ('reserved-bits-clear', '(yielded[0][2] // 2) % 16 == 0'),
                    ('pad-count-consistent', 'yielded[0][2] % 2 == 0 or 1 <= yielded[0][yielded[1] - 1] <= yielded[1] - 4')],
    on_yield={'acc': 'acc + yielded[0][4:yielded[1] - (yielded[0][yielded[1] - 1] if yielded[0][2] % 2 == 1 else 0)]', 'k': 'k + 1',
              'done': '(yielded[0][2] // 32) % 2 == 0'},
    loops=[dict(inv=['start_pos + remaining_size == self._size', '0 <= start_pos', '0 <= remaining_size',
                     'acc == self._bts[0:start_pos]', '(k == 0) == (start_pos == 0)', 'done == (remaining_size == 0 and k > 0)', 'k >= 0'],
                variant='remaining_size')],
    ensures=[('reassembled', 'acc == self._bts'), ('closed', 'self._size == 0 or done'), ('count', '(k == 0) == (self._size == 0)')],
 ),
}
