"""Bounded stand-ins (labelled bounded, never counted as proved) wired into the checks as extras."""
import json
import os
import subprocess

HERE = os.path.dirname(os.path.dirname(os.path.abspath(__file__)))


def run_bounded(prop, script, function, src, tier, seed):
    env = dict(os.environ)
    env['PYTHONPATH'] = os.path.dirname(src.root) + os.pathsep + env.get('PYTHONPATH', '')
    env['VERIF_TIER'] = tier
    env['VERIF_SEED'] = str(seed)
    out = {'violations': [], 'errors': [], 'undecided': [], 'bounded': []}
    try:
        p = subprocess.run(['/venv/bin/python', os.path.join(HERE, 'bounded', script)], capture_output=True, text=True, timeout=3000, env=env)
        d = json.loads(p.stdout.strip().splitlines()[-1])
    except Exception as e:
        out['errors'].append(f'bounded monitor {script} failed: {e!r}')
        return out
    out['bounded'].append({'function': function, 'script': 'bounded/' + script, 'bound': d.get('bound'), 'evaluations': d.get('evaluations'),
                           'distinct': d.get('distinct'), 'violations': len(d.get('violations', []))})
    for i, v in enumerate(d.get('violations', [])[:3]):
        path = os.path.join(HERE, 'replays', f'{prop}_bounded_{script[:-3]}_{i}.json')
        os.makedirs(os.path.dirname(path), exist_ok=True)
        json.dump({'property': prop, 'obligation': f'bounded[{function}]', 'function': function, 'concrete_inputs': v.get('input'), 'observed': v.get('observed'),
                   'expected': v.get('expected'), 'how_to_run': f'cd {HERE} && PYTHONPATH={os.path.dirname(src.root)} /venv/bin/python bounded/{script}'}, open(path, 'w'), indent=1)
        out['violations'].append({'key': f'bounded[{function}]#{i}', 'replay': path, 'confirmed': True})
    return out


def extra_c13(tier, seed, src):
    return run_bounded('C13', 'c13_spacing.py', 'FrameItem._compute_spacing_and_direction', src, tier, seed)


EXTRAS = {'C13': extra_c13}
