"""Per-property texts for the evidence files: trusted base ids (DESIGN.md section 4), assumptions, explanations."""
TRUSTED = {
    '*': ['A-SMT: soundness of z3 5.1 / z3 4.8.12 / cvc5 1.0.3 and of the pyvc VC generator (mitigated by mutant runs and replay)',
          'A-PY: CPython semantics of the modelled core (unbounded ints, floor div/mod, short-circuit, slice clamping, bytearray slice assignment, dict order, MRO/property dispatch)',
          'A-TYPE: public entries are called with arguments of the declared shapes (type invariants are preconditions)',
          'A-SEQ: single thread; no recursion/memory exhaustion',
          'A-LOG: logging calls and exception messages are dropped (D2/D3); formatting them neither raises nor mutates'],
    'C01': ['X-STRUCT: struct.Struct(>B >H).pack', 'X-STR: str(int) is the decimal numeral (length by magnitude, ASCII); encode("ascii") raises iff a code point > 127', 'X-OS: open(wb/ab).write'],
    'C02': ['X-STRUCT: struct.Struct(>B >H).pack'],
    'C04': ['X-STRUCT', 'X-STR', 'summary contracts: write_struct (deterministic function of code and value, instances proved under C06), Attribute.get_as_bytes / _make_attrs_bytes / make_item_body_bytes / _make_template_bytes summaries each proved separately in this property',
            'Attribute.inferred_representation_code is abstract (any code 1..27 or None, or an exception); _run_checks_and_set_defaults is abstract',
            'template taken from the first object: verified on item lists of length 0..2 (the function reads element 0 only)',
            'attribute state type invariant: a non-multivalued attribute holds a scalar (kept by Attribute.convert_value[multivalued=False,*], proved in this property; the constructor argument value= is internal)'],
    'C17': ['X-RE: python re semantics of the supported subset (classes, quantifiers, leading ^, trailing $, fullmatch/match/search); language equivalence decided by z3 string theory'],
    'C06': ['X-STRUCT: struct.Struct(fmt).pack for >B >H >I >b >h >i raises struct.error iff out of range else big-endian two\'s complement',
            'X-FLOAT: >f/>d pack is IEEE-754 (uninterpreted ieee32/ieee64; OverflowError for >f abstracted by a predicate)',
            'X-STR: str.encode("ascii")', 'X-DT: datetime.astimezone(utc) yields calendar-range fields',
            'X-ROUND: round(us/1000) closed form (validated exhaustively for 0 <= us < 10**6 in the thorough tier)'],
    'C13': ['X-NPSTEP (pyvc/npstats.py): np.diff gives the consecutive differences; np.unique keeps the set of elements sorted ascending; element-wise operators with a scalar act per element; '
            'np.median / np.mean lie between the least and the greatest element; A.all() true => the predicate holds for the least and greatest element, false => it fails for some value between them '
            '(over-approximation, exact for interval predicates). Validated against the installed numpy on every run (bounded/axioms.py)'],
    'C10': ['X-OS: open(f, "wb") truncates, "ab" appends; f.write(b) appends b; content visible when the with-block exits'],
    'C15': ['X-STRUCT: struct.Struct(>B >H).pack'],
    'C16': ['X-STR: str.encode("ascii")', 'X-STRUCT'],
}
# cached_property values the engine takes as absent-or-consistent on objects given by a model.  Every OTHER cached_property read on such an
# object forks: the cache may already hold a value computed in an earlier state of the object (write, change an attribute, write again),
# so a contract over the current state fails unless the cached value is irrelevant.  Each entry here must name the open finding that
# records the staleness of that cache.
ASSUMED_CONSISTENT_CACHES = {
    'obname': 'EFLRItem.obname is never invalidated: open finding C14 c14_stale_obname (witness findings/c14_stale_obname.py)',
}
# Layering: the content properties below speak about what a reader finds IN THE FILE, so each of them also depends on the transport layer
# (record -> segments -> visible records -> disk).  The root contract of that layer joins their checks; the contracts it uses at its
# call sites (make_segments, make_segment, represent_as_bytes, _make_visible_record, the output buffer) follow by the callee closure.
# The value encoders (write_struct*) need no entry: they are reached through the closure from the functions that call them.
# 'encoders' = every verified value-encoder contract (all C06 contracts that are not lemmas; filled in by the registry).  C15 ("a valid
# specification can be written whatever the sizes") needs their exact raises-iff side: an encoder that rejects a representable value
# (a 255-character name) makes a valid specification unwritable.
LAYER_ROOTS = {'transport': ['DLISWriter.write_logical_records'], 'encoders': '@C06-non-lemma'}
PROPERTY_LAYERS = {p: ['transport'] for p in ('C03', 'C04', 'C05', 'C07', 'C08', 'C09', 'C12', 'C13')}
PROPERTY_LAYERS['C15'] = ['encoders']
ASSUMPTIONS = {
    '*': ['machine arithmetic: none - python ints are encoded as mathematical integers exactly',
          'termination is proved only where a loop variant is stated',
          'exception messages and logging are not modelled',
          'cached_property EFLRItem.obname is taken as absent or consistent with the current name/origin/copy number (its staleness is the open finding c14_stale_obname); any other cached_property is treated as possibly stale'],
    'C13': ['machine arithmetic treated as mathematical: in FrameItem._compute_spacing_and_direction float64 arithmetic (differences, d/m, squaring, the comparison with 0.001) is encoded over the reals - rounding is not modelled '
            '(the bounded monitor bounded/c13_spacing.py runs the real floating-point code as a cross-check)',
            'the kernel contract covers index arrays with at least two rows whose differences are computed exactly: integer wrap-around in np.diff, a single row and NaN are the open findings c13_* (native witnesses)'],
    'C10': ['crash points are decided at flush returns (after ByteWriter.write_bytes returns); a torn OS write is out of scope',
            'float-valued output_chunk_size (integral floats) is not covered by the proof: only int sizes'],
}
EXPLANATIONS = {
    'C01': 'Obligations over the real text of get_ascii_bytes, StorageUnitLabel.represent_as_bytes, DLISWriter.__init__/_check_visible_record_length/_make_visible_record/write_storage_unit_label/write_logical_records, LogicalRecordBytes.make_segment/make_segments: the label is sul_bytes(...) of 80 bytes; every chunk handed to the output buffer is one visible record (even, 20..max, FF01, declared length) tiled by exactly one segment (even, >=16, reserved bits clear, pad count consistent); the buffer/byte-writer contracts (C10) carry the chunks to disk unchanged.',
    'C02': 'make_segments: loop invariant acc == bts[0:start_pos] with acc accumulated as a reader strips each yielded segment; predecessor/successor bits by ghost k/done; represent_as_bytes passes body/type/flag unchanged; write_logical_records consumes each record\'s segments completely and in order.',
    'C04': 'Attribute components (8 value shapes incl. a flat list of symbolic length and nested lists): descriptor bits vs emitted fields, count vs number of encoded values (ghost counter on every write_struct call), byte layout; object component = 0x70 obname + one component per schema attribute in schema order with 0x00 for unset ones (22 item classes, schema extracted from the source each run); set component, template, set body = set + template + objects for any number of objects; file-header literals.',
    'C06': 'Each write_struct* function equals the independent RP66 spec function enc_* on the code\'s domain and raises exactly outside it; spec lemmas dec(enc(v) ++ rest) == (v, consumed) validate the spec.',
    'C10': 'BufferedOutput representation invariant and stream ghost: disk ++ buffer[:filled] == everything appended; flushes move exactly the filled part; first physical write truncates, later ones append; reported total equals file growth.',
    'C15': 'make_segment raises ValueError only for an empty body or an out-of-range request; make_segments raises only for capacity < 12 and every capacity vrl-8 with vrl accepted by the writer is >= 12; write_logical_records cannot raise once the label is written and the chunk size accepted.',
    'C16': 'NoFormatFrameData._make_body_bytes == obname bytes ++ payload exactly (bytes, bytearray, or ASCII text), nothing appended.',
}


# ---------------------------------------------------------------------------------------------- C14: memoisation inventory
# Every place where the library keeps a computed value beyond the call that computed it (functools.lru_cache / cache / cached_property).
# Each one listed here has been analysed: what it is keyed on and whether a value can outlive the state it was computed from.  A
# memoisation that is NOT listed is outside what the C14 contracts decide (the executor runs the function body and cannot see a cache
# wrapped around it): the C14 check then reports the property as UNDECIDED (exit 2) - never as held, and never as a violation.
MEMOISATION_ANALYSED = {
    'logical_record/core/eflr/eflr_item.py:EFLRItem.obname': 'cached_property; never invalidated - open finding c14_stale_obname',
    'logical_record/core/logical_record/segment_attributes.py:ushort': 'lru_cache keyed on an int in 0..255 (sum of flag weights); value depends on the key only',
    'utils/internal/struct_writer.py:write_struct': 'lru_cache keyed on (code, value); 1 / 1.0 / True collide - open finding c14_lru_cache_key_collision',
}


def memoisation_inventory(root):
    """(file:qualified name) of every function or method decorated with lru_cache / cache / cached_property under `root` (tests excluded)"""
    import ast
    import os
    found = {}
    for dp, dn, fn in sorted(os.walk(root)):
        if os.sep + 'tests' in dp + os.sep:
            continue
        for f in sorted(fn):
            if not f.endswith('.py'):
                continue
            path = os.path.join(dp, f)
            try:
                tree = ast.parse(open(path).read())
            except SyntaxError:
                continue
            def walk(node, prefix):
                for ch in ast.iter_child_nodes(node):
                    if isinstance(ch, (ast.FunctionDef, ast.AsyncFunctionDef)):
                        for d in ch.decorator_list:
                            txt = ast.unparse(d)
                            if any(w in txt for w in ('lru_cache', 'cached_property')) or txt.split('(')[0].split('.')[-1] == 'cache':
                                found[f'{os.path.relpath(path, root)}:{prefix}{ch.name}'] = txt
                        walk(ch, prefix + ch.name + '.')
                    elif isinstance(ch, ast.ClassDef):
                        walk(ch, prefix + ch.name + '.')
                    else:
                        walk(ch, prefix)
            walk(tree, '')
    return found


def extra_c14(tier, seed, src):
    inv = memoisation_inventory(src.root)
    new = sorted(k for k in inv if k not in MEMOISATION_ANALYSED)
    out = {'obligations': [{'key': 'memoisation-inventory:every-cache-in-the-library-is-one-that-was-analysed', 'function': 'inventory',
                            'status': 'discharged' if not new else 'unknown', 'solver': 'syntactic'}],
           'memoisation': {'found': inv, 'analysed': MEMOISATION_ANALYSED}}
    if new:
        out['undecided'] = [f'memoisation not analysed ({k} is wrapped in {inv[k]}): values may outlive the state they were computed from' for k in new]
    return out


EXTRAS = {'C14': extra_c14}
