"""./check <Cxx> [--tier quick|thorough] | --replay <file> | --relock | --list"""
import argparse
import re
import json
import multiprocessing as mp
import os
import subprocess
import sys
import time
import traceback

HERE = os.path.dirname(os.path.dirname(os.path.abspath(__file__)))
sys.path.insert(0, HERE)

from pyvc.source import Source, src_root          # noqa
from pyvc import registry                          # noqa

SPEC_PATH = os.path.join(HERE, 'spec', 'rp66.py')
# runs against another source tree (PYVC_SRC: mutant / scratch copies) must not overwrite the evidence of the real tree
OUT = HERE if src_root() == '/repo/src/dliswriter' else os.path.join(os.environ.get('VERIF_SCRATCH', '/var/tmp'), 'pyvc_out_%d' % os.getpid())
LOCK_PATH = os.path.join(HERE, 'obligations.lock.json')
FINDINGS_PATH = os.path.join(HERE, 'known_findings.txt')
VENV_PY = '/venv/bin/python'


def count_worker(key):
    """phase 1: explore only, return the number of obligation instances (used to balance the discharge shards)"""
    try:
        from pyvc.verify import Executor, explore
        src = Source()
        reg = registry.load()
        ex = Executor(src, reg.contracts, reg.models, reg.spec_funcs(src))
        ex.opq_model_table = reg.opq_models
        ex.spec_ufs = reg.spec_ufs
        res, _ = explore(ex, key, reg.contracts[key])
        calls = set()
        for pr in res:
            calls.update(getattr(pr, 'calls', []))
        return key, (sum(len(pr.obligations) for pr in res), sorted(calls))
    except Exception:
        return key, (1, [])


def verified_instances(reg, callee_key):
    """the separately verified contracts standing behind a contract used at a call site: the contract itself when it is verified, else
    (assumed summary) every verified contract on the same target function"""
    c = reg.contracts.get(callee_key)
    if c is None or c.get('inline') or c.get('inline_in_callers'):
        return []
    if not c.get('axiom'):
        return [callee_key]
    tgt = c.get('target', callee_key)
    return [k for k, c2 in reg.contracts.items() if not c2.get('axiom') and not c2.get('inline') and c2.get('target', k) == tgt and k != callee_key]


def worker(job):
    key, tier, shard, nshards = job
    import z3
    from pyvc.verify import Executor, explore
    from pyvc.solve import discharge, to_smt2, hyps_consistent
    from pyvc.concretize import concrete_inputs
    t0 = time.time()
    out = {'key': key, 'obligations': [], 'unsupported': [], 'paths': 0, 'feasible_paths': 0, 'error': None, 'span': None}
    try:
        src = Source()
        reg = registry.load()
        ex = Executor(src, reg.contracts, reg.models, reg.spec_funcs(src))
        ex.opq_model_table = reg.opq_models
        ex.spec_ufs = reg.spec_ufs
        c = reg.contracts[key]
        try:
            fn, owner, module, ent = (lambda r: r)(ex.find_function(key, c))
            fpath = os.path.join(HERE, module[len('<verif>/'):]) if module.startswith('<verif>/') else os.path.join(src.root, module)
            out['span'] = {'file': fpath, 'line_start': fn.lineno, 'line_end': fn.end_lineno}
        except Exception as e:
            out['unsupported'].append(f'{key}: {e}')
            return out
        res, unsup = explore(ex, key, c)
        out['unsupported'] = unsup
        out['paths'] = len(res)
        timeout_ms = 10000 if tier == 'quick' else 60000
        seen_per_key = {}
        ob_index = 0
        for pr in res:
            if pr.error:
                continue
            # vacuity guard: some path that reaches an exit must have a satisfiable hypothesis set (probed by shard 0 until
            # three such paths are found; probing every path would cost more than the proof itself)
            feas = 'not-probed'
            if shard == 0 and out['feasible_paths'] < 3 and pr.outcome and pr.outcome[0] in ('normal', 'raise'):
                class _P:
                    hyps = getattr(pr, 'final_pc', None) or (max(pr.obligations, key=lambda o: len(o.hyps)).hyps if pr.obligations else [])
                feas = hyps_consistent(_P)
                if feas != 'unsat':
                    out['feasible_paths'] += 1
            for ob in pr.obligations:
                ob_index += 1
                if ob_index % nshards != shard:
                    continue          # discharged by another worker process (the exploration is cheap and repeated per shard)
                def on_model(m, pr=pr):
                    return {'inputs': concrete_inputs(pr.inputs, m, pr_old_heap(pr)),
                            'model': {str(d): str(m[d])[:200] for d in list(m.decls())[:60]}}
                # thorough: the first 2 path instances of every obligation key go to all three solvers (agreement check),
                # the others to z3 with cvc5 / z3-4.8 as fall-backs like in the quick tier
                seen_per_key[ob.key] = seen_per_key.get(ob.key, 0) + 1
                portfolio = 'all' if (tier == 'thorough' and seen_per_key[ob.key] <= 2) else 'fallback'
                r = discharge(ob, timeout_ms=timeout_ms, portfolio=portfolio, on_model=on_model)
                rec = {'key': ob.key, 'kind': ob.kind, 'status': r['status'], 'solver': r['solver'], 'seconds': round(r['seconds'], 4),
                       'by': r['by'], 'line': ob.line, 'aux': ob.aux, 'info': ob.info, 'case': pr.case, 'path': pr.prefix,
                       'path_feasible': feas}
                if r['status'] != 'discharged':
                    txt = to_smt2(ob.hyps, ob.goal)
                    rec['smt2'] = txt if len(txt) < 300000 else txt[:300000] + '\n; truncated'
                    rec['goal'] = str(ob.goal)[:2000]
                    if r['model'] is not None:
                        rec['inputs'] = r['model'].get('inputs')
                        rec['model'] = r['model'].get('model')
                elif ob.kind.startswith('post') or ob.kind.startswith('yield-req'):
                    rec['smt2_bytes'] = None
                out['obligations'].append(rec)
    except Exception:
        out['error'] = traceback.format_exc()
    out['seconds'] = round(time.time() - t0, 3)
    return out


def pr_old_heap(pr):
    return getattr(pr, 'old_heap', None) or {}


# ------------------------------------------------------------------------------------------------ findings
def load_findings():
    open_, fixed = [], []
    if os.path.exists(FINDINGS_PATH):
        for line in open(FINDINGS_PATH):
            line = line.strip()
            if not line or line.startswith('#'):
                continue
            head, _, what = line.partition('::')
            kind, _, rest = head.partition(':')
            d = {'what': what.strip(), 'raw': line}
            for tok in rest.split():
                if '=' in tok:
                    k, v = tok.split('=', 1)
                    d[k] = v
            (open_ if kind.strip() == 'open' else fixed).append(d)
    return open_, fixed


# ------------------------------------------------------------------------------------------------ replay
def run_replay_file(path, src=None):
    env = dict(os.environ)
    root = src or src_root()
    env['PYTHONPATH'] = os.path.dirname(root) + os.pathsep + env.get('PYTHONPATH', '')
    try:
        p = subprocess.run([VENV_PY, os.path.join(HERE, 'replay', 'run_replay.py'), path], capture_output=True, text=True, timeout=300, env=env)
        line = (p.stdout.strip().splitlines() or ['{}'])[-1]
        r = json.loads(line)
        if p.returncode != 0 and not r:
            r = {'confirmed': False, 'notes': ['replay runner failed: ' + p.stderr[-500:]]}
        return r
    except Exception as e:
        return {'confirmed': False, 'notes': [f'replay runner error: {e!r}']}


def write_replay(prop, key, rec, contract, src, n):
    os.makedirs(os.path.join(OUT, 'replays'), exist_ok=True)
    safe = rec['key'].replace('/', '_').replace(':', '_').replace('[', '_').replace(']', '_').replace('#', '_').replace('@', '_')
    path = os.path.join(OUT, 'replays', f'{prop}_{safe}_{n}.json')
    target = contract.get('target', key)
    cname = target.rpartition('.')[0]
    fn_is_method = bool(cname)
    classes = {c: ci.module for c, ci in src.classes.items()}
    inputs = rec.get('inputs') or {}
    self_name = None
    if fn_is_method and inputs:
        self_name = 'self' if 'self' in inputs else ('cls' if 'cls' in inputs else None)

    def texts(lst):
        return [c[1] if isinstance(c, tuple) else c for c in lst]
    kind_full = rec['key'].split(':', 1)[1] if ':' in rec['key'] else rec['key']
    m_k = re.match(r'^(post|exc-post|exc-frame|frame|yield-req|raises-only-if|noraise-outside|inv-keep|inv-init|pre@call|call-req|variant)(?:\[([^\]]*)\])?(?:#(.*))?$', kind_full)
    focus = None
    if m_k:
        focus = {'kind': m_k.group(1), 'name': (m_k.group(3) if m_k.group(1) in ('post', 'exc-post', 'yield-req') else m_k.group(2))}
        if focus['name']:
            focus['name'] = re.sub(r'@C\d+(,C\d+)*$', lambda mm: mm.group(0), focus['name'])
        if focus['kind'] not in ('post', 'yield-req', 'raises-only-if', 'noraise-outside', 'frame', 'exc-frame'):
            focus = {'kind': None, 'name': None}     # auxiliary obligation: replay against all property-level clauses
    named = lambda lst: [[c[0], c[1]] if isinstance(c, tuple) else [str(i), c] for i, c in enumerate(lst)]
    doc = {
        'focus': focus,
        'property': prop, 'obligation': rec['key'], 'function': key, 'target': target, 'case': rec.get('case'), 'path': rec.get('path'),
        'module': (src.funcs.get(target.rpartition('.')[2], (None, None))[1] if not cname else src.classes[cname].module if cname in src.classes else None),
        'kind': contract.get('kind', 'plain'), 'src_root': src.root, 'classes': classes, 'self_name': self_name,
        'inputs': inputs, 'model': rec.get('model'), 'solver': rec.get('solver'), 'by': rec.get('by'), 'goal': rec.get('goal'),
        'line': rec.get('line'), 'info': rec.get('info'),
        'contract': {'requires': texts(contract.get('requires', [])), 'self_inv': texts(contract.get('self_inv', [])),
                     'raises': contract.get('raises', {}), 'ensures': texts(contract.get('ensures', [])),
                     'ensures_named': named(contract.get('ensures', [])), 'yield_requires_named': named(contract.get('yield_requires', [])),
                     'may_raise': contract.get('may_raise', []),
                     'modifies': contract.get('modifies'), 'exc_modifies': contract.get('exc_modifies'), 'has_stubs': bool(contract.get('stubs')),
                     'ghost': contract.get('ghost', {}), 'on_yield': contract.get('on_yield', {}),
                     'yield_requires': texts(contract.get('yield_requires', [])), 'is_generator': bool(contract.get('on_yield') or contract.get('yield_requires'))},
        'spec_module': SPEC_PATH, 'smt2': rec.get('smt2'),
        'how_to_run': f'cd {HERE} && ./check --replay {path}',
    }
    json.dump(doc, open(path, 'w'), indent=1)
    return path


# ------------------------------------------------------------------------------------------------ main check
def check_property(prop, tier, seed, relock=False):
    t0 = time.time()
    reg = registry.load()
    src = Source()
    keys = [k for k, c in reg.contracts.items() if prop in c.get('props', []) and not c.get('axiom') and not c.get('inline')]
    extra = reg.property_extras.get(prop)
    lines = []
    if not keys and not extra:
        print(f'CHECKER-ERROR property={prop}: no contracts registered')
        return 3
    nproc = int(os.environ.get('PYVC_JOBS', '16'))
    shard_results = []
    dependency_keys = []
    if keys:
        # a worker that dies (solver crash) must not hang the check: ProcessPoolExecutor reports a broken pool
        from concurrent.futures import ProcessPoolExecutor
        from concurrent.futures.process import BrokenProcessPool
        try:
            with ProcessPoolExecutor(max_workers=nproc, mp_context=mp.get_context('fork')) as pool:
                # phase 1: obligation counts per function; phase 2: discharge shards sized to about total / (1.5 * processes)
                # modular verification: a caller is checked against the callee's CONTRACT, so the property also needs the callee's own
                # proof - the verified contracts behind every contract used at a call site join the check (transitively)
                counts, todo, direct = {}, list(keys), set(keys)
                while todo:
                    info = dict(pool.map(count_worker, todo))
                    todo = []
                    for k_, (cnt, calls) in info.items():
                        counts[k_] = cnt
                        for ck in calls:
                            for vk in verified_instances(reg, ck):
                                if vk not in counts and vk not in todo and vk not in info:
                                    todo.append(vk)
                keys = list(counts)
                dependency_keys = sorted(set(keys) - direct)
                jobs = []
                for k in sorted(keys, key=lambda k_: -counts.get(k_, 1)):
                    ns = int(min(nproc, max(1, -(-counts.get(k, 1) // 75))))     # about 75 obligation instances per shard
                    jobs.extend((k, tier, sh, ns) for sh in range(ns))
                futs = [pool.submit(worker, j) for j in jobs]
                for j, fu in zip(jobs, futs):
                    try:
                        shard_results.append(fu.result(timeout=3000))
                    except BrokenProcessPool:
                        raise
                    except Exception as e:
                        shard_results.append({'key': j[0], 'obligations': [], 'unsupported': [], 'paths': 0, 'feasible_paths': 0,
                                              'error': f'worker failed: {e!r}', 'span': None, 'seconds': 0})
        except BrokenProcessPool as e:
            print(f'CHECKER-ERROR property={prop} a worker process died ({e!r}); nothing decided')
            return 3
    merged = {}
    for r in shard_results:
        m_ = merged.get(r['key'])
        if m_ is None:
            merged[r['key']] = r
        else:
            m_['obligations'].extend(r['obligations'])
            m_['feasible_paths'] = max(m_['feasible_paths'], r['feasible_paths'])
            m_['unsupported'] = sorted(set(m_['unsupported']) | set(r['unsupported']))
            m_['error'] = m_['error'] or r['error']
            m_['seconds'] = max(m_.get('seconds') or 0, r.get('seconds') or 0)
    results = list(merged.values())
    # ---- aggregate
    agg = {}
    by_backend = {}
    checker_errors, undecided, unsupported = [], [], []
    total = 0
    funcs = []
    for r in results:
        funcs.append({'function': r['key'], 'paths': r['paths'], 'feasible_paths': r['feasible_paths'], 'span': r['span'], 'seconds': r.get('seconds'),
                      'included_as': 'callee contract used by a function of this property' if r['key'] in dependency_keys else 'listed for this property'})
        if r['error']:
            checker_errors.append(f"{r['key']}: {r['error'][-600:]}")
        for u in r['unsupported']:
            unsupported.append(u)
        if not r['error'] and not r['unsupported'] and r['feasible_paths'] == 0:
            checker_errors.append(f"{r['key']}: vacuous - no feasible path reaches an exit (contradictory requires?)")
        for o in r['obligations']:
            m_tag = re.search(r'@(C\d+(?:,C\d+)*)$', o['key'])
            if m_tag and prop not in m_tag.group(1).split(','):
                continue        # a clause tagged  name@Cxx[,Cyy]  belongs to those properties only
            total += 1
            a = agg.setdefault(o['key'], {'key': o['key'], 'function': r['key'], 'instances': 0, 'status': 'discharged', 'aux': o['aux'], 'seconds': 0.0,
                                          'worst': None, 'solvers': {}})
            a['instances'] += 1
            a['seconds'] += o['seconds']
            a['solvers'][o['solver']] = a['solvers'].get(o['solver'], 0) + 1
            for sname, sres in o['by'].items():
                bb = by_backend.setdefault(sname, {'unsat': 0, 'sat': 0, 'unknown': 0})
                bb[sres if sres in bb else 'unknown'] += 1
            rank = {'discharged': 0, 'unknown': 1, 'refuted': 2, 'disagree': 3}
            if rank[o['status']] > rank[a['status']]:
                a['status'] = o['status']
                a['worst'] = o
    # ---- lock
    lock = json.load(open(LOCK_PATH)) if os.path.exists(LOCK_PATH) else {}
    if relock:
        # only the obligations of the contracts LISTED for the property are pinned: which callee contracts join through the closure
        # depends on the call structure of the code, and a refactoring (helper inlined) may legitimately change it
        lock[prop] = sorted(k for k, a in agg.items() if a['status'] == 'discharged' and a['function'] not in dependency_keys)
        json.dump(lock, open(LOCK_PATH, 'w'), indent=0, sort_keys=True)
    locked = set(lock.get(prop, []))
    missing = sorted(locked - set(agg))
    # ---- findings
    open_f, fixed_f = load_findings()
    open_keys = {f['key']: f for f in open_f if f.get('property') == prop}
    violations, known_lines = [], []
    n = 0
    for k, a in sorted(agg.items()):
        if a['status'] == 'discharged':
            continue
        if a['status'] == 'disagree':
            checker_errors.append(f'{k}: solvers disagree {a["worst"]["by"]}')
            continue
        if a['status'] == 'unknown':
            undecided.append(k)
            continue
        # refuted
        w = a['worst']
        c = reg.contracts[a['function']]
        n += 1
        path = write_replay(prop, a['function'], w, c, src, n)
        rr = run_replay_file(path) if w.get('inputs') else {'confirmed': False, 'notes': ['no model inputs']}
        doc = json.load(open(path))
        doc['replay_result'] = rr
        json.dump(doc, open(path, 'w'), indent=1)
        if k in open_keys:
            known_lines.append(f"KNOWN-FINDING: property={prop} {open_keys[k]['what']} [obligation {k}; witness replayed: {'confirmed' if rr.get('confirmed') else 'not confirmed'}]")
            a['status'] = 'known-finding'
            continue
        violations.append((k, path, rr))
    # extra (non-pyvc) checks registered for the property: bounded stand-ins, lemma scripts
    extra_info = None
    if extra:
        extra_info = extra(tier=tier, seed=seed, src=src)
        for v in extra_info.get('violations', []):
            violations.append((v['key'], v['replay'], {'confirmed': v.get('confirmed', True)}))
        checker_errors.extend(extra_info.get('errors', []))
        undecided.extend(extra_info.get('undecided', []))
        # lemma / schema obligations decided outside the path executor (still SMT or exact evaluation): counted like the others
        for o in extra_info.get('obligations', []):
            total += 1
            agg[o['key']] = {'key': o['key'], 'function': o.get('function', 'lemma'), 'instances': 1, 'status': o['status'], 'aux': False,
                             'seconds': o.get('seconds', 0.0), 'worst': None, 'solvers': {o.get('solver', 'z3-5.1'): 1}}
            bb = by_backend.setdefault(o.get('solver', 'z3-5.1'), {'unsat': 0, 'sat': 0, 'unknown': 0})
            bb['unsat' if o['status'] == 'discharged' else 'sat' if o['status'] == 'refuted' else 'unknown'] += 1
            if o['status'] == 'refuted':
                os.makedirs(os.path.join(HERE, 'replays'), exist_ok=True)
                path = os.path.join(HERE, 'replays', f"{prop}_{o['key'].replace('/', '_').replace(':', '_').replace('[', '_').replace(']', '_')}.json")
                json.dump({'property': prop, 'obligation': o['key'], 'solver_output': o.get('model'), 'note': 'lemma refuted; no program input'}, open(path, 'w'), indent=1)
                violations.append((o['key'], path, {'confirmed': False}))
            elif o['status'] != 'discharged':
                undecided.append(o['key'])
    # repaired defects keep their witness as a regression check: if it reproduces again, that is a violation (a fixed entry suppresses nothing)
    for f in fixed_f:
        if f.get('property') == prop and f.get('witness'):
            wpath = os.path.join(HERE, 'findings', f['witness'])
            env = dict(os.environ)
            env['PYTHONPATH'] = os.path.dirname(src.root) + os.pathsep + env.get('PYTHONPATH', '')
            try:
                pr_ = subprocess.run([VENV_PY, wpath], capture_output=True, text=True, timeout=600, env=env)
                total += 1
                k_ = 'regression[' + f['witness'] + ']'
                agg[k_] = {'key': k_, 'function': 'witness', 'instances': 1, 'status': 'discharged' if pr_.returncode == 0 else 'refuted', 'aux': False,
                           'seconds': 0.0, 'worst': None, 'solvers': {'native replay': 1}}
                if pr_.returncode == 1:
                    path = os.path.join(HERE, 'replays', f"{prop}_regression_{f['witness']}.json")
                    os.makedirs(os.path.dirname(path), exist_ok=True)
                    json.dump({'property': prop, 'obligation': k_, 'witness_script': wpath, 'output': pr_.stdout[-1000:],
                               'how_to_run': f'PYTHONPATH={os.path.dirname(src.root)} {VENV_PY} {wpath}'}, open(path, 'w'), indent=1)
                    violations.append((k_, path, {'confirmed': True}))
                elif pr_.returncode != 0:
                    checker_errors.append(f"regression witness {f['witness']} crashed: {pr_.stderr[-300:]}")
            except Exception as e:
                checker_errors.append(f"regression witness {f['witness']}: {e!r}")
    # genuine defects recorded as open findings with a native witness script (findings/<name>.py exits 1 while the defect reproduces)
    for f in open_f:
        if f.get('property') == prop and f.get('witness'):
            wpath = os.path.join(HERE, 'findings', f['witness'])
            env = dict(os.environ)
            env['PYTHONPATH'] = os.path.dirname(src.root) + os.pathsep + env.get('PYTHONPATH', '')
            try:
                pr_ = subprocess.run([VENV_PY, wpath], capture_output=True, text=True, timeout=600, env=env)
                if pr_.returncode == 1:
                    known_lines.append(f"KNOWN-FINDING: property={prop} {f['what']} [witness {f['witness']} reproduces on the real code]")
                elif pr_.returncode != 0:
                    checker_errors.append(f"finding witness {f['witness']} crashed: {pr_.stderr[-300:]}")
            except Exception as e:
                checker_errors.append(f"finding witness {f['witness']}: {e!r}")
    # ---- axiom validation against the installed interpreter / libraries (bounded evidence about the trusted base, every run)
    axiom_info = None
    try:
        env = dict(os.environ)
        env['VERIF_SEED'] = str(seed)
        pr_ = subprocess.run([VENV_PY, os.path.join(HERE, 'bounded', 'axioms.py')], capture_output=True, text=True, timeout=900, env=env)
        axiom_info = json.loads(pr_.stdout.strip().splitlines()[-1])
        for v in axiom_info.get('violations', []):
            checker_errors.append(f"axiom validation failed (the trusted base does not match the installed library): {v}")
    except Exception as e:
        checker_errors.append(f'axiom validation did not run: {e!r}')
    # ---- run-time cross-check of the contracts on random concrete inputs (engine/axiom unsoundness detector; bounded)
    sampling = []
    try:
        from pyvc.sampling import sample_contract
        nsamp = 3 if tier == 'quick' else 60
        for k in keys:
            if any(a['function'] == k and a['status'] != 'discharged' for a in agg.values()):
                continue        # something about this function is already reported
            rs = sample_contract(k, reg.contracts[k], src, HERE, nsamp, seed)
            if rs is None:
                continue
            sampling.append({'function': k, 'evaluations': rs['evaluations'], 'precondition_false': rs['precondition_false'], 'failures': len(rs['failures'])})
            undecided_fn = any(u.startswith(k + ' ') or u.startswith(k + ':') for u in unsupported)
            for fl in rs['failures'][:1]:
                if undecided_fn:
                    # the proof of this function is undecided (construct outside the engine's subset) but the SAME contract, evaluated
                    # natively on the real function for a concrete input, fails: a genuine counterexample on the real code
                    os.makedirs(os.path.join(OUT, 'replays'), exist_ok=True)
                    path = os.path.join(OUT, 'replays', f"{prop}_{k.replace('/', '_').replace('[', '_').replace(']', '_')}_runtime_contract_check.json")
                    json.dump({'property': prop, 'obligation': f'{k}:runtime-contract-check', 'function': k, 'inputs': fl['inputs'], 'failed_clauses': fl['failed'],
                               'note': 'proof undecided (unsupported construct); the contract evaluated natively on the real function fails for this input',
                               'source_root': src.root}, open(path, 'w'), indent=1)
                    violations.append((f'{k}:runtime-contract-check', path, {'confirmed': True}))
                    continue
                if any(a['status'] == 'refuted' and a['function'] != k for a in agg.values()):
                    # this function was verified against the CONTRACTS of its callees, and a contract of another function is refuted in
                    # this very run: the native failure is the consequence of that violation seen from the caller, not an engine defect
                    os.makedirs(os.path.join(OUT, 'replays'), exist_ok=True)
                    path = os.path.join(OUT, 'replays', f"{prop}_{k.replace('/', '_').replace('[', '_').replace(']', '_')}_runtime_contract_check.json")
                    json.dump({'property': prop, 'obligation': f'{k}:runtime-contract-check', 'function': k, 'inputs': fl['inputs'], 'failed_clauses': fl['failed'],
                               'note': 'verified modularly against callee contracts, one of which is refuted in this run; the contract evaluated natively on the '
                                       'real function fails for this input', 'source_root': src.root}, open(path, 'w'), indent=1)
                    violations.append((f'{k}:runtime-contract-check', path, {'confirmed': True}))
                    continue
                checker_errors.append(f"contract of {k} fails on a concrete input although its obligations are discharged (unsound engine or axiom): {fl['failed']} inputs={json.dumps(fl['inputs'])[:300]}")
    except Exception as e:
        checker_errors.append(f'contract sampling crashed: {e!r}')
    # ---- thorough tier: self-validation on scratch copies - the seeded changes of this property must be refuted, the harmless
    #      refactors that touch it must stay quiet (reported in the evidence; they never change the verdict about the real tree)
    selfcheck = None
    if tier == 'thorough' and src.root == '/repo/src/dliswriter' and not os.environ.get('PYVC_NO_SELFCHECK'):
        selfcheck = run_selfcheck(prop)
    # ---- report
    discharged = sum(1 for a in agg.values() if a['status'] == 'discharged')
    for ln in known_lines:
        print(ln)
    for k, path, rr in violations:
        tail = '' if rr.get('confirmed') else ' no-failing-input-found'
        print(f'obligation failed: {k}  ({"counterexample replayed on the real code" if rr.get("confirmed") else "no replayable input"})')
        print(f'VIOLATION property={prop} replay={path}{tail}')
    for u in unsupported:
        print(f'UNDECIDED property={prop} unsupported construct: {u}')
    for k in undecided:
        print(f'UNDECIDED property={prop} {k}' if ' ' in k else f'UNDECIDED property={prop} obligation {k}: no solver answered within budget')
    for k in missing:
        print(f'UNDECIDED property={prop} contract binding lost: locked obligation {k} is no longer generated')
    for e in checker_errors:
        print(f'CHECKER-ERROR property={prop} {e}')
    if total == 0 and not extra:
        print(f'CHECKER-ERROR property={prop} zero obligations generated')
        checker_errors.append('zero obligations')
    wall = time.time() - t0
    n_keys = len(agg)
    known_n = sum(1 for a in agg.values() if a['status'] == 'known-finding')
    claimable = n_keys - known_n
    ev = {
        'property_id': prop, 'tier': tier, 'seed': seed, 'level': 'proof',
        'coverage': {
            'obligations': claimable, 'discharged': discharged,
            'checker_cmd': f'./check {prop} --tier {tier}',
            'trusted_base': reg.trusted_base(prop),
            'obligation_instances': total,
            'functions_under_contract': funcs,
            'by_backend': by_backend,
            'slowest': sorted(({'key': a['key'], 'seconds': round(a['seconds'], 3)} for a in agg.values()), key=lambda x: -x['seconds'])[:5],
            'known_finding_obligations': sorted(k for k, a in agg.items() if a['status'] == 'known-finding'),
            'undecided': undecided, 'unsupported': unsupported, 'lock': {'expected': len(locked), 'generated': n_keys, 'missing': missing},
            'samples': [{'key': a['key'], 'function': a['function'], 'instances': a['instances'], 'status': a['status']} for a in list(agg.values())[:8]],
            'explanation': reg.explanations.get(prop, ''),
            'bounded_standins': (extra_info or {}).get('bounded', []),
            'axiom_validation': (axiom_info or {}).get('checks'),
            'selfcheck': selfcheck,
            'contract_sampling': sampling,
            'extra': {k: v for k, v in (extra_info or {}).items() if k not in ('violations', 'errors', 'undecided', 'bounded')},
            'source_root': src.root,
        },
        'assumptions': reg.assumptions(prop),
        'wall_s': round(wall, 2),
        'violations': len(violations),
    }
    os.makedirs(os.path.join(OUT, 'evidence'), exist_ok=True)
    json.dump(ev, open(os.path.join(OUT, 'evidence', f'{prop}.json'), 'w'), indent=1)
    print(f'{prop} [{tier}]: {n_keys} obligations ({total} path instances) over {len(keys)} functions; discharged {discharged}, '
          f'known findings {known_n}, violations {len(violations)}, undecided {len(undecided) + len(unsupported) + len(missing)}; {wall:.1f}s')
    if checker_errors:
        return 3
    if violations:
        return 1
    if undecided or unsupported or missing:
        return 2
    return 0


def run_selfcheck(prop):
    import glob
    import shutil
    import tempfile
    out = {'seeded': [], 'harmless': []}
    def scratch_with(patch):
        scr = tempfile.mkdtemp(prefix='self.', dir=os.environ.get('VERIF_SCRATCH', '/var/tmp'))
        subprocess.run(['rsync', '-a', '--exclude', '.git', '--exclude', 'src/tests', '/repo/', scr + '/repo/'], check=True)
        ok = subprocess.run(['patch', '-p1', '-s', '-d', scr + '/repo', '-i', patch], capture_output=True).returncode == 0
        return scr, ok
    def run(scr):
        env = dict(os.environ)
        env['PYVC_SRC'] = scr + '/repo/src/dliswriter'
        env['PYVC_NO_SELFCHECK'] = '1'
        p_ = subprocess.run([sys.executable, '-m', 'pyvc.cli', prop, '--tier', 'quick'], capture_output=True, text=True, cwd=HERE, env=env, timeout=3000)
        return p_.returncode
    # (a spread of at most PYVC_SELFCHECK_MAX seeded changes - default 4 - keeps the tier within minutes; tools/seeded.py runs them all)
    ds = []
    for d in sorted(glob.glob(os.path.join(HERE, 'seeded', prop + '-*'))):
        try:
            if json.load(open(os.path.join(d, 'meta.json'))).get('obsolete'):
                continue
        except Exception:
            pass
        ds.append(d)
    cap = int(os.environ.get('PYVC_SELFCHECK_MAX', '4') or 4)
    out['seeded_available'] = len(ds)
    ds = ds[::max(1, len(ds) // cap)][:cap]
    for d in ds:
        scr, ok = scratch_with(os.path.join(d, 'patch.diff'))
        try:
            out['seeded'].append({'id': os.path.basename(d), 'patch_applies': ok, 'check_exit': run(scr) if ok else None})
        finally:
            shutil.rmtree(scr, ignore_errors=True)
    for d in sorted(glob.glob(os.path.join(HERE, 'harmless', '*.diff'))):
        props = open(d[:-5] + '.props').read().split()
        if prop not in props:
            continue
        scr, ok = scratch_with(d)
        try:
            out['harmless'].append({'id': os.path.basename(d)[:-5], 'patch_applies': ok, 'check_exit': run(scr) if ok else None})
        finally:
            shutil.rmtree(scr, ignore_errors=True)
    out['seeded_refuted'] = sum(1 for x in out['seeded'] if x['check_exit'] == 1)
    out['harmless_quiet'] = sum(1 for x in out['harmless'] if x['check_exit'] == 0)
    return out


def main():
    ap = argparse.ArgumentParser()
    ap.add_argument('prop', nargs='?')
    ap.add_argument('--tier', default=os.environ.get('VERIF_TIER', 'quick'))
    ap.add_argument('--replay')
    ap.add_argument('--relock', action='store_true')
    ap.add_argument('--list', action='store_true')
    a = ap.parse_args()
    seed = int(os.environ.get('VERIF_SEED', '0') or 0)
    if a.replay:
        doc = json.load(open(a.replay))
        rr = run_replay_file(a.replay)
        print(json.dumps(rr, indent=1))
        if rr.get('confirmed'):
            print(f"VIOLATION property={doc['property']} replay={a.replay}")
            return 1
        return 0
    if a.list:
        reg = registry.load()
        for k, c in reg.contracts.items():
            print(k, c.get('props'))
        return 0
    tier = a.tier if a.tier in ('quick', 'thorough') else 'quick'
    return check_property(a.prop, tier, seed, relock=a.relock)


if __name__ == '__main__':
    sys.exit(main())
