"""Regression witness (C11 "with dataset-name mapping"): a structured array whose field names equal the channel names but whose
channels are mapped CROSSWISE (channel X -> dataset Y, channel Y -> dataset X) was written through the plain-slice shortcut of
NumpyDataWrapper.load_chunk, so each channel got the field of its own name instead of its mapped dataset.
Compared against the same specification fed from a dict (which has no shortcut).  Exit 1 while it reproduces."""
import os
import sys
import tempfile
from datetime import datetime
import numpy as np
from dliswriter import DLISFile

X = [1., 2., 3., 4.]; Y = [10., 20., 30., 40.]


def build(path, data):
    df = DLISFile(); lf = df.add_logical_file()
    lf.add_origin('O', file_set_number=1, creation_time=datetime(2020, 1, 1))
    cx = lf.add_channel('X', dataset_name='Y'); cy = lf.add_channel('Y', dataset_name='X')
    lf.add_frame('F', channels=(cx, cy))
    df.write(path, data=data)
    with open(path, 'rb') as f:
        return f.read()


arr = np.zeros(4, dtype=[('X', 'f8'), ('Y', 'f8')]); arr['X'] = X; arr['Y'] = Y
d = tempfile.mkdtemp(); p = os.path.join(d, 'x.dlis')
try:
    from_array = build(p, arr)
    from_dict = build(p, {'X': np.array(X), 'Y': np.array(Y)})
finally:
    os.path.exists(p) and os.remove(p); os.rmdir(d)
first_row_mapped = np.array([Y[0], X[0]], dtype='>f8').tobytes()      # channel X holds dataset Y
first_row_own = np.array([X[0], Y[0]], dtype='>f8').tobytes()
print('array source writes mapped rows:', first_row_mapped in from_array, '| writes own-name rows:', first_row_own in from_array,
      '| equal to dict-source file:', from_array == from_dict)
sys.exit(0 if (first_row_mapped in from_array and from_array == from_dict) else 1)
