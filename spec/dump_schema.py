"""Runs under /venv/bin/python with the source tree under test on PYTHONPATH: prints, as JSON, the EFLR schema the library really
builds - per set type the logical record type and, in template order, every attribute's label, count class, fixed representation
code and referenced set type.  The schema is a constant of the code (no inputs), so evaluating the constructors decides it."""
import inspect
import json
import logging
logging.disable(logging.CRITICAL)
from dliswriter.logical_record import eflr_types as et           # noqa: E402
from dliswriter.logical_record.core.eflr import EFLRSet          # noqa: E402

out = {}
for n, S in sorted(vars(et).items()):
    if not (inspect.isclass(S) and issubclass(S, EFLRSet) and S is not EFLRSet):
        continue
    I = S.item_type
    ent = {'lrtype': int(S.logical_record_type.value), 'is_eflr': bool(S.is_eflr), 'item_class': I.__name__, 'set_class': S.__name__, 'attrs': None}
    if I.__name__ != 'FileHeaderItem':
        item = None
        for kw in ({}, {'origin_reference': 1, 'file_set_number': 1}):
            try:
                item = I('X', parent=S(), **kw)
                break
            except TypeError:
                continue
        if item is not None:
            ent['attrs'] = []
            for a in item.attributes.values():
                oc = getattr(a, '_object_class', None)
                ent['attrs'].append({'label': a.label, 'many': bool(a.multivalued), 'nested': bool(a.multidimensional),
                                     'code': a._representation_code.name if a._representation_code is not None else None,
                                     'ref': oc.set_type if (oc is not None and isinstance(getattr(oc, 'set_type', None), str)) else None,
                                     'class': type(a).__name__, 'units_settable': bool(getattr(a, '_units_settable', True))})
    out[S.set_type] = ent
# the enumerations of the standard the writer relies on: name -> number (and the struct format of the fixed-size codes)
from dliswriter.utils.internal import internal_enums as ie     # noqa: E402
enums = {}
for en in ('RepresentationCode', 'EFLRType', 'IFLRType'):
    E = getattr(ie, en, None)
    if E is not None:
        enums[en] = {m.name: [int(m.value), (m.converter.format if getattr(m, 'converter', None) is not None else None)] for m in E}
out['__enums__'] = enums
print(json.dumps(out))
