"""Statement execution: single path, exceptions as python exceptions of the executor, loops cut by invariants."""
import ast
import z3
from .values import *
from .engine import HObj, HList, HSeqList, HDict, key_of, Frame
from . import builtins_ as B
from .exprs import _conc_int


def assigned_names(stmts):
    out = set()
    for st in stmts:
        for n in ast.walk(st):
            if isinstance(n, ast.Name) and isinstance(n.ctx, ast.Store):
                out.add(n.id)
    return sorted(out)


class StmtMixin:
    def exec_block(self, stmts):
        for s in stmts:
            self.exec(s)

    def exec(self, s):
        self.cur_stmt_line = getattr(s, 'lineno', 0)
        m = getattr(self, 'ex_' + type(s).__name__, None)
        if m is None:
            raise Unsupported(f'statement {type(s).__name__} (line {s.lineno})')
        return m(s)

    def ex_Pass(self, s):
        pass

    def ex_Expr(self, s):
        v = s.value
        if isinstance(v, ast.Constant):
            return                      # D1 docstring
        if isinstance(v, ast.Call) and isinstance(v.func, ast.Attribute) and isinstance(v.func.value, ast.Name) \
                and v.func.value.id in ('logger', 'logging'):
            return                      # D2 logging
        if isinstance(v, ast.Yield):
            self.do_yield(self.ev(v.value) if v.value else NONE, s)
            return
        if isinstance(v, ast.YieldFrom):
            src = self.ev(v.value)
            self.yield_from(src, s)
            return
        self.ev(v)

    def do_yield(self, val, node):
        fr = self.frame
        if getattr(fr, 'cm_body', None) is not None:
            # @contextmanager protocol: the with-body runs at the yield point, in the caller's frame; an exception of the
            # body is thrown into the generator here (contextlib semantics)
            body, fr.cm_body = fr.cm_body, None
            self.st.frames.pop()
            try:
                self.exec_block(body)
            finally:
                self.st.frames.append(fr)
            return
        if hasattr(fr, 'yields'):
            fr.yields.append(val)
            return
        if len(self.st.frames) == 1 or fr.fn_key == self.cur_key:
            self.on_yield(val, node)
            return
        raise Unsupported('yield in unexpected frame')

    def yield_from(self, src, node):
        if src.k == 'gen':
            self.yield_from_gen(src, node)
            return
        if src.k == 'opq':
            # X-NP: iterating an array yields its rows in order - handled as one bulk yield of the whole array
            self.do_yield(src, node)
            return
        for v in self.iter_concrete(src):
            self.do_yield(v, node)

    def ex_Assign(self, s):
        v = self.ev(s.value)
        for t in s.targets:
            self.assign(t, v)

    def ex_AnnAssign(self, s):
        if s.value is not None:
            self.assign(s.target, self.ev(s.value))

    def ex_AugAssign(self, s):
        t = s.target
        op = type(s.op).__name__
        if isinstance(t, ast.Name):
            cur = self.lookup(t.id, t)
            v = self.ev(s.value)
            self.frame.env[t.id] = self.aug(op, cur, v, s)
        elif isinstance(t, ast.Attribute):
            o = self.ev(t.value)
            cur = self.getattr_value(o, t.attr, t)
            v = self.ev(s.value)
            self.store_attr(o, t.attr, self.aug(op, cur, v, s), s)
        elif isinstance(t, ast.Subscript):
            base = self.ev(t.value)
            idx = self.ev(t.slice)
            cur = self.index_value(base, idx, t)
            v = self.ev(s.value)
            self.store_index(base, idx, self.aug(op, cur, v, s), t)
        else:
            raise Unsupported('augassign target')

    def aug(self, op, cur, v, node):
        if cur.k == 'list' and op == 'Add':
            self.st.heap[cur.t].items.extend(self.iter_concrete(v))
            return cur
        return self.binop(op, cur, v, node)

    def assign(self, t, v):
        if isinstance(t, ast.Name):
            self.frame.env[t.id] = v
            return
        if isinstance(t, ast.Attribute):
            o = self.ev(t.value)
            self.store_attr(o, t.attr, v, t)
            return
        if isinstance(t, (ast.Tuple, ast.List)):
            items = self.iter_concrete(v)
            if len(items) != len(t.elts):
                raise PyRaise('ValueError', 'unpack')
            for tt, vv in zip(t.elts, items):
                self.assign(tt, vv)
            return
        if isinstance(t, ast.Subscript):
            if isinstance(t.slice, ast.Slice):
                self.store_slice(t, v)
                return
            base = self.ev(t.value)
            idx = self.ev(t.slice)
            self.store_index(base, idx, v, t)
            return
        raise Unsupported(f'assignment target {ast.unparse(t)}')

    def store_index(self, base, idx, v, node):
        if base.k == 'list':
            ic = _conc_int(self.as_int(idx))
            if ic is None:
                raise Unsupported('symbolic index store')
            items = self.st.heap[base.t].items
            if not -len(items) <= ic < len(items):
                raise PyRaise('IndexError')
            items[ic] = v
            return
        if base.k == 'obj' and '__store__' in self.st.heap[base.t].f:
            base = self.st.heap[base.t].f['__store__']
        if base.k == 'dict':
            h = self.st.heap[base.t]
            if h.sym or (not h.d and idx.k not in ('str', 'int')):
                try:
                    h.d[key_of(idx)] = v
                except Unsupported:
                    if h.d:
                        raise Unsupported('symbolic key stored into a dictionary that also has concrete keys')
                    h.sym.append((idx, v))
                return
            h.d[self.dict_key(h, idx)] = v
            return
        if base.k == 'opq':
            return self.opq_setitem(base, idx, v, node)
        raise Unsupported(f'item store on {base.k}')

    def opq_setitem(self, base, idx, v, node):
        """X[key] = v on an external value: functional update of the variable that holds X (the model decides whether the
        store is allowed on this kind of value - a store into caller-owned data is a C19 obligation)"""
        if base.x == 'unknown':
            return          # a store into state the model does not mention
        if '__setitem__' not in self.opq_models().get(base.x or 'any', {}):
            raise Unsupported(f'item store on opaque {base.x}')
        new = self.opq_call(base, '__setitem__', [idx, v], {}, node)
        tv = node.value
        if isinstance(tv, ast.Name):
            self.frame.env[tv.id] = new
        elif isinstance(tv, ast.Attribute):
            o = self.ev(tv.value)
            self.st.heap[o.t].f[tv.attr] = new
        else:
            raise Unsupported('item store target')

    def store_slice(self, t, v):
        """bytearray slice assignment X[a:b] = v  (A-PY: replaces the slice; python semantics incl. clamping)"""
        base = self.ev(t.value)
        if not (base.k == 'bytes' and base.x == 'bytearray'):
            raise Unsupported('slice assignment on non-bytearray')
        lo = self.ev(t.slice.lower) if t.slice.lower else NONE
        hi = self.ev(t.slice.upper) if t.slice.upper else NONE
        s = base.t
        n = z3.Length(s)

        def norm(x, default):
            if x.k == 'none':
                return default
            xi = self.as_int(x)
            return z3.If(xi < 0, z3.If(xi + n < 0, z3.IntVal(0), xi + n), z3.If(xi > n, n, xi))
        a = norm(lo, z3.IntVal(0))
        b = norm(hi, n)
        b = z3.If(b < a, a, b)
        new = z3.Concat(z3.Extract(s, z3.IntVal(0), a), self.as_seq(v), z3.Extract(s, b, n - b))
        nv = SV('bytes', z3.simplify(new), 'bytearray')
        # write back to where the bytearray lives (attribute or local); aliasing of bytearrays is not modelled:
        tv = t.value
        if isinstance(tv, ast.Attribute):
            o = self.ev(tv.value)
            self.st.heap[o.t].f[tv.attr] = nv
        elif isinstance(tv, ast.Name):
            self.frame.env[tv.id] = nv
        else:
            raise Unsupported('slice assignment target')

    def ex_Return(self, s):
        raise ReturnSig(self.ev(s.value) if s.value else NONE)

    def ex_Raise(self, s):
        if s.exc is None:
            raise PyRaise(self.frame.env.get('__exc__', VC('Exception')).t)
        e = s.exc
        name = ast.unparse(e.func) if isinstance(e, ast.Call) else ast.unparse(e)   # D3: message dropped
        if isinstance(e, ast.Name) and e.id in self.frame.env:
            v = self.frame.env[e.id]
            if v.k == 'const' and isinstance(v.t, tuple) and v.t[0] == 'exception':
                name = v.t[1]
        name = name.split('.')[-1] if name.split('.')[0] in ('cls', 'self') else name
        raise PyRaise(name)

    def ex_Assert(self, s):
        if not self.branch(self.truth(self.ev(s.test))):
            raise PyRaise('AssertionError')

    def ex_If(self, s):
        cond = self.truth(self.ev(s.test))
        if (self.cur_contract or {}).get('merge_ifs') and self.mergeable(s):
            c = z3.simplify(cond)
            if not (z3.is_true(c) or z3.is_false(c)) and not self.st.oracle.replaying_forced_or_choice_pending():
                if self.try_merge(s, c):
                    return
        if self.branch(cond):
            self.exec_block(s.body)
        else:
            self.exec_block(s.orelse)

    def mergeable(self, s):
        def simple(block):
            return len(block) == 1 and isinstance(block[0], (ast.Assign, ast.AugAssign)) and \
                isinstance(block[0].targets[0] if isinstance(block[0], ast.Assign) else block[0].target, ast.Name)
        if not (simple(s.body) and simple(s.orelse)):
            return False
        t1 = s.body[0].targets[0].id if isinstance(s.body[0], ast.Assign) else s.body[0].target.id
        t2 = s.orelse[0].targets[0].id if isinstance(s.orelse[0], ast.Assign) else s.orelse[0].target.id
        return t1 == t2

    def try_merge(self, s, c):
        """if-then-else state merging for two single assignments to the same local: both arms are evaluated under their guard,
        the results are joined with ite; facts assumed inside an arm are kept guarded.  Aborted (and redone by path splitting)
        if an arm needs a decision, raises, or touches the heap."""
        st = self.st
        name = s.body[0].targets[0].id if isinstance(s.body[0], ast.Assign) else s.body[0].target.id
        orc = st.oracle
        mark = (orc.pos, len(orc.prefix), len(orc.new))
        heap0 = st.snapshot_heap()
        env0 = dict(self.frame.env)
        pc0 = list(st.pc)
        ghost0 = dict(st.ghost)
        nobl = len(st.obligations)
        results = []

        def rollback():
            st.heap = heap0
            self.frame.env.clear()
            self.frame.env.update(env0)
            st.pc[:] = pc0
            st.ghost = ghost0
            del st.obligations[nobl:]
        for guard, block in ((c, s.body), (z3.Not(c), s.orelse)):
            st.pc.append(guard)
            try:
                self.exec_block(block)
            except (PyRaise, PathEnd, ReturnSig, BreakSig, ContinueSig, Unsupported):
                rollback()
                return False
            if (orc.pos, len(orc.prefix), len(orc.new)) != mark or len(st.obligations) != nobl:
                rollback()
                return False
            # heap must be unchanged (same field values by identity)
            for i, h in st.heap.items():
                h0 = heap0.get(i)
                if h0 is None:
                    continue          # a temporary allocated inside the arm (e.g. the list in bytes([0])): unreachable afterwards
                if type(h0) is not type(h) or (hasattr(h, 'f') and any(h.f.get(k_) is not v_ for k_, v_ in h0.f.items())) \
                        or (hasattr(h, 'f') and len(h.f) != len(h0.f)):
                    rollback()
                    return False
            facts = st.pc[len(pc0) + 1:]
            results.append((guard, self.frame.env.get(name), facts, dict(st.ghost)))
            st.heap = {i: h.copy() for i, h in heap0.items()}
            self.frame.env.clear()
            self.frame.env.update(env0)
            st.pc[:] = pc0
            gh = dict(ghost0)
            # per-call counters may advance; keep the larger ones
            st.ghost = gh
        (g1, v1, f1, gh1), (g2, v2, f2, gh2) = results
        m = None
        if v1 is not None and v2 is not None and v1.k in ('bytes', 'str') and v2.k == v1.k:
            # factor the common prefix of two concatenations:  ite(c, p ++ x, p ++ y)  ==  p ++ ite(c, x, y)
            from .solve import concat_leaves
            la, lb = concat_leaves(v1.t), concat_leaves(v2.t)
            k = 0
            while k < len(la) and k < len(lb) and la[k].eq(lb[k]):
                k += 1

            def cat(xs):
                return z3.Empty(SEQ) if not xs else (xs[0] if len(xs) == 1 else z3.Concat(*xs))
            tail = z3.If(c, cat(la[k:]), cat(lb[k:]))
            m = SV(v1.k, cat(la[:k] + [tail]), v1.x)
        elif v1 is not None and v2 is not None:
            m = self.merge_ite(c, v1, v2)
        if m is None:
            rollback()
            return False
        st.heap = heap0
        self.frame.env[name] = m
        for f in f1:
            st.pc.append(z3.Implies(c, f))
        for f in f2:
            st.pc.append(z3.Implies(z3.Not(c), f))
        return True

    def ex_FunctionDef(self, s):
        self.frame.env[s.name] = SV('func', FuncVal(node=s, closure=self.frame.env, owner=self.frame.cls,
                                                    module=self.frame.module, name=s.name))
        for d in reversed(s.decorator_list):
            txt = ast.unparse(d)
            if 'wraps' in txt:
                continue            # functools.wraps(f) copies metadata only
            dec = self.ev(d)
            self.frame.env[s.name] = self.call_value(dec, [self.frame.env[s.name]], {}, s)

    def ex_Import(self, s):
        pass

    def ex_ImportFrom(self, s):
        pass

    def ex_Global(self, s):
        raise Unsupported('global statement')

    def ex_Break(self, s):
        raise BreakSig()

    def ex_Continue(self, s):
        raise ContinueSig()

    def ex_Delete(self, s):
        raise Unsupported('del')

    # ---------------------------------------------------------------- exceptions
    EXC_PARENTS = {'KeyError': 'LookupError', 'IndexError': 'LookupError', 'LookupError': 'Exception', 'ValueError': 'Exception',
                   'TypeError': 'Exception', 'RuntimeError': 'Exception', 'AttributeError': 'Exception', 'struct.error': 'Exception',
                   'UnicodeEncodeError': 'UnicodeError', 'UnicodeError': 'ValueError', 'ZeroDivisionError': 'ArithmeticError',
                   'ArithmeticError': 'Exception', 'OverflowError': 'ArithmeticError', 'StopIteration': 'Exception',
                   'AssertionError': 'Exception', 'NotImplementedError': 'RuntimeError', 'OSError': 'Exception', 'Exception': 'BaseException',
                   'AnyException': 'Exception'}

    def exc_matches(self, exc, handler_type):
        if handler_type is None:
            return True
        names = []
        if isinstance(handler_type, ast.Tuple):
            names = [ast.unparse(x) for x in handler_type.elts]
        else:
            names = [ast.unparse(handler_type)]
        names = [n.split('.')[-1] if n.split('.')[0] in ('cls', 'self') else n for n in names]
        cur = exc
        seen = 0
        while cur is not None and seen < 20:
            if cur in names or cur.split('.')[-1] in names:
                return True
            nxt = self.EXC_PARENTS.get(cur)
            if nxt is None and cur.split('.')[-1] in self.src.classes:
                ci = self.src.classes[cur.split('.')[-1]]
                nxt = ci.bases[0].split('.')[-1] if ci.bases else None
            cur = nxt
            seen += 1
        return False

    def ex_Try(self, s):
        try:
            self._try_core(s)
        except (PyRaise, ReturnSig, BreakSig, ContinueSig):
            # finally-block runs on every python-level exit; PathEnd/Unsupported (executor-level) propagate untouched
            self.exec_block(s.finalbody)
            raise
        else:
            self.exec_block(s.finalbody)

    def _try_core(self, s):
        try:
            self.exec_block(s.body)
        except PyRaise as r:
            for h in s.handlers:
                if self.exc_matches(r.exc, h.type):
                    if h.name:
                        self.frame.env[h.name] = SV('const', ('exception', r.exc))
                    self.frame.env['__exc__'] = VC(r.exc)
                    self.exec_block(h.body)
                    break
            else:
                raise
        else:
            self.exec_block(s.orelse)

    def ex_With(self, s):
        if len(s.items) != 1:
            raise Unsupported('with: several items')
        it = s.items[0]
        ce = it.context_expr
        if isinstance(ce, ast.Call) and isinstance(ce.func, ast.Name) and ce.func.id == 'open':
            args = [self.ev(a) for a in ce.args]
            h = self.open_file(args, s)
            if it.optional_vars is not None:
                self.assign(it.optional_vars, h)
            self.exec_block(s.body)
            self.close_file(h, s)
            return
        if isinstance(ce, ast.Call):
            fv = self.ev(ce.func)
            if fv.k == 'func' and fv.t.node is not None and isinstance(fv.t.node, ast.FunctionDef) and \
                    any(ast.unparse(d).endswith('contextmanager') for d in fv.t.node.decorator_list):
                args = [self.ev(a) for a in ce.args]
                kw = {k.arg: self.ev(k.value) for k in ce.keywords}
                f = fv.t
                env = dict(f.closure or {})
                env.update(self.bind(f.node, ([f.bound] if f.bound is not None else []) + args, kw, f))
                fr = Frame(env, fn_key=self.contract_key(f), cls=f.owner, module=f.module)
                fr.cm_body = s.body
                if it.optional_vars is not None:
                    raise Unsupported('with ... as x on a generator context manager')
                self.st.frames.append(fr)
                try:
                    self.exec_block(f.node.body)
                except ReturnSig:
                    pass
                finally:
                    self.st.frames.pop()
                if fr.cm_body is not None:
                    raise Unsupported('context manager generator did not yield')
                return
        cm = self.ev(ce)
        self.with_context(cm, it, s)

    def with_context(self, cm, it, s):
        """`with obj:` on an instance of a source class with __enter__ / __exit__ (python's protocol)"""
        if cm.k != 'obj' or self.src.find_method(self.st.heap[cm.t].cls, '__enter__')[0] is None \
                or self.src.find_method(self.st.heap[cm.t].cls, '__exit__')[0] is None:
            raise Unsupported('with statement on this context manager')
        v = self.call_method(cm, '__enter__', [], {}, s)
        if it.optional_vars is not None:
            self.assign(it.optional_vars, v)
        try:
            self.exec_block(s.body)
        except PyRaise as e:
            r = self.call_method(cm, '__exit__', [SV('const', ('exception-class', e.exc)), SV('const', ('exception', e.exc)), NONE], {}, s)
            if self.branch(self.truth(r)):
                return              # the context manager swallowed the exception
            raise
        except (ReturnSig, BreakSig, ContinueSig):
            self.call_method(cm, '__exit__', [NONE, NONE, NONE], {}, s)
            raise
        self.call_method(cm, '__exit__', [NONE, NONE, NONE], {}, s)

    def open_file(self, args, node):
        raise Unsupported('open()')

    def close_file(self, h, node):
        pass

    # ---------------------------------------------------------------- loops
    def loop_contract(self, node):
        """loop contracts are keyed by the loop's ordinal inside its function: `loops` for the function under verification,
        `loops_in[<callee key>]` for loops of callees that are inlined into it"""
        c = self.cur_contract or {}
        fr = self.frame
        if fr.fn_key == self.cur_key and len(self.st.frames) == 1:
            loops = c.get('loops')
        else:
            loops = c.get('loops_in', {}).get(fr.fn_key)
        if not loops:
            return None
        ordinal = self.loop_ordinal(node)
        if ordinal is None:
            return None
        if isinstance(loops, dict):
            return loops.get(ordinal)
        return loops[ordinal] if ordinal < len(loops) else None

    def loop_ordinal(self, node):
        if id(node) in self.loop_ordinals:
            return self.loop_ordinals[id(node)]
        fn = getattr(self.frame, 'fn_node', None)
        if fn is None:
            return None
        from .verify import _loops_in_order
        for k, n in enumerate(_loops_in_order(fn)):
            self.loop_ordinals[id(n)] = k
        return self.loop_ordinals.get(id(node))

    def inv_env(self):
        env = dict(self.frame.env)
        return env

    def check_invs(self, lc, kind, node, ordinal):
        if kind == 'inv-keep' and hasattr(node, 'body'):
            self.loop_frame_check(node.body)
        if kind == 'inv-init':
            self.st.ghost[('loop_entry',)] = dict(self.frame.env)
        for nm, r in self.clauses(lc.get('inv', [])):
            self.oblige(f'{kind}[loop{ordinal}]#{nm}', self.truth(self.ev_spec(r, self.inv_env())), node, aux=True)

    def assume_invs(self, lc):
        for nm, r in self.clauses(lc.get('inv', [])):
            self.assume(self.truth(self.ev_spec(r, self.inv_env())))

    def havoc_loop(self, lc, body, extra_names=()):
        env = self.frame.env
        for m in lc.get('havoc_lists', []):
            # a python list that grows in the loop: from here on its contents are a sequence of symbolic length
            v = env[m]
            h = self.st.heap[v.t]
            x = h.x if isinstance(h, HSeqList) else lc.get('list_elem', 'ref')
            self.st.heap[v.t] = HSeqList(self.sym(m, SEQ), x)
        for m in list(assigned_names(body)) + list(extra_names):
            if m in lc.get('havoc_lists', []):
                continue
            if m in env:
                if env[m].k in ('obj', 'list', 'dict', 'func', 'gen', 'cls', 'enum', 'super'):
                    del env[m]      # may refer to a different object after the loop: undefined for the rest of the path
                else:
                    env[m] = self.havoc_like(env[m], m)
        for g in lc.get('havoc_ghost', list(self.cur_contract.get('ghost', {}))):
            if g in self.st.ghost:
                self.st.ghost[g] = self.havoc_like(self.st.ghost[g], g)
        declared = set()
        for loc in lc.get('havoc', []):
            base, _, field = loc.rpartition('.')
            o = self.ev_spec(base, self.inv_env())
            h = self.st.heap[o.t]
            h.f[field] = self.havoc_like(h.f[field], field)
            declared.add((o.t, field))
        self.loop_frame_begin(body, declared)

    # ---- inferred loop frame: fields of objects that exist before the loop and are WRITTEN by its body (directly or inside inlined callees)
    # hold, at the head of an arbitrary iteration, whatever earlier iterations left there - not their value before the loop.  They are
    # found by comparing the heap at the end of the body with the heap at its head; a written field that was not havoced is recorded for
    # this loop and the path is executed again (RetryPath) with the field havoced.  Written lists / dicts must be declared (havoc_lists).
    def _loop_key(self, body):
        return (getattr(self.frame, 'fn_key', None), body[0].lineno, body[0].col_offset)

    def loop_frame_begin(self, body, declared):
        lk = self._loop_key(body)
        table = self.__dict__.setdefault('loop_frames', {})
        for (oid, field) in sorted(table.get(lk, ()), key=str):
            h = self.st.heap.get(oid) if isinstance(self.st.heap, dict) else (self.st.heap[oid] if oid < len(self.st.heap) else None)
            if isinstance(h, HObj) and field in h.f and (oid, field) not in declared:
                h.f[field] = self.havoc_like(h.f[field], field)
                declared.add((oid, field))
            elif isinstance(h, HList) and not isinstance(h, HSeqList) and isinstance(field, tuple) and field[1] < len(h.items):
                h.items[field[1]] = self.havoc_like(h.items[field[1]], f'item{field[1]}')
                declared.add((oid, field))
        snap = {}
        ids = self.st.heap.keys() if isinstance(self.st.heap, dict) else range(len(self.st.heap))
        for oid in ids:
            h = self.st.heap[oid]
            if isinstance(h, HObj):
                snap[oid] = ('obj', dict(h.f))
            elif isinstance(h, HSeqList):
                snap[oid] = ('seqlist', h.seq)
            elif isinstance(h, HList):
                snap[oid] = ('list', list(h.items))
            elif isinstance(h, HDict):
                snap[oid] = ('dict', dict(h.d), list(h.sym) if getattr(h, 'sym', None) else [])
        self.st.ghost[('loop_frame', lk)] = (snap, declared)

    @staticmethod
    def _same_value(a, b):
        if a is b:
            return True
        if a.k != b.k:
            return False
        if a.k == 'none':
            return True
        if a.k in ('obj', 'list', 'dict', 'cls', 'enum'):
            return a.t == b.t
        if z3.is_expr(a.t) and z3.is_expr(b.t):
            return z3.eq(a.t, b.t)
        if a.k == 'tuple':
            return len(a.t) == len(b.t) and all(StmtMixin._same_value(x, y) for x, y in zip(a.t, b.t))
        if a.k == 'const':
            try:
                return type(a.t) is type(b.t) and a.t == b.t
            except Exception:
                return False
        return False

    def loop_frame_check(self, body):
        lk = self._loop_key(body)
        rec = self.st.ghost.get(('loop_frame', lk))
        if rec is None:
            return
        snap, declared = rec
        grew = False
        for oid, ent in snap.items():
            h = self.st.heap[oid]
            if ent[0] == 'obj' and isinstance(h, HObj):
                for field, v0 in ent[1].items():
                    v1 = h.f.get(field)
                    if v1 is None or self._same_value(v0, v1) or (oid, field) in declared:
                        continue
                    self.__dict__.setdefault('loop_frames', {}).setdefault(lk, set()).add((oid, field))
                    grew = True
            elif ent[0] == 'list' and isinstance(h, HList) and not isinstance(h, HSeqList):
                if len(h.items) != len(ent[1]):
                    raise Unsupported('the loop body changes the length of a list that exists before the loop and is not declared in havoc_lists')
                for i_, (x, y) in enumerate(zip(ent[1], h.items)):
                    if not self._same_value(x, y) and (oid, ('item', i_)) not in declared:
                        self.__dict__.setdefault('loop_frames', {}).setdefault(lk, set()).add((oid, ('item', i_)))
                        grew = True
            elif ent[0] == 'dict' and isinstance(h, HDict):
                if set(h.d) != set(ent[1]) or any(not self._same_value(ent[1][k_], h.d[k_]) for k_ in ent[1]):
                    raise Unsupported('the loop body changes a dict that exists before the loop (not supported by the loop encoding)')
        if grew:
            raise RetryPath()

    def havoc_like(self, v, hint):
        if v.k == 'int':
            return VI(self.sym(hint, INT))
        if v.k == 'bool':
            return VB(self.sym(hint, BOOL))
        if v.k in ('bytes', 'str', 'seq'):
            return SV(v.k, self.sym(hint, SEQ), v.x)
        if v.k == 'const' and isinstance(v.t, (bytes, bytearray)):
            return SV('bytes', self.sym(hint, SEQ))
        if v.k == 'const' and isinstance(v.t, str):
            return SV('str', self.sym(hint, SEQ))
        if v.k == 'opq':
            return SV('opq', self.sym(hint, OPQ), v.x)
        if v.k == 'none':
            return v
        if v.k == 'ref':
            return SV('ref', self.sym(hint, INT))
        if v.k == 'tuple':
            return SV('tuple', tuple(self.havoc_like(x, hint) for x in v.t))
        raise Unsupported(f'havoc of {v.k} ({hint}) - declare its shape in the loop contract')

    def ex_While(self, s):
        lc = self.loop_contract(s)
        if lc is None:
            # no contract: bounded unrolling is not a proof -> only loops whose condition becomes concretely false are accepted
            n = 0
            while True:
                c = z3.simplify(self.truth(self.ev(s.test)))
                if z3.is_false(c):
                    break
                if not z3.is_true(c) or n > 2000:
                    raise Unsupported(f'while loop without invariant (line {s.lineno})')
                try:
                    self.exec_block(s.body)
                except BreakSig:
                    return
                except ContinueSig:
                    pass
                n += 1
            self.exec_block(s.orelse)
            return
        ordinal = self.loop_ordinal(s)
        self.check_invs(lc, 'inv-init', s, ordinal)
        self.havoc_loop(lc, s.body)
        self.assume_invs(lc)
        cond = self.truth(self.ev(s.test))
        if self.branch(cond):
            v0 = self.as_int(self.ev_spec(lc['variant'], self.inv_env())) if 'variant' in lc else None
            try:
                self.exec_block(s.body)
            except ContinueSig:
                pass
            except BreakSig:
                raise Unsupported('break inside a contracted while loop')
            self.check_invs(lc, 'inv-keep', s, ordinal)
            if v0 is not None:
                v1 = self.as_int(self.ev_spec(lc['variant'], self.inv_env()))
                self.oblige(f'variant[loop{ordinal}]', z3.And(v1 < v0, v0 >= 0), s, aux=True)
            raise PathEnd('loop body verified')
        self.exec_block(s.orelse)

    def ex_For(self, s):
        it = self.ev(s.iter)
        if it.k == 'obj' and '__store__' in self.st.heap[it.t].f:
            it = self.st.heap[it.t].f['__store__']
        if it.k == 'obj':
            it = self.iter_object(it, s)
        if it.k == 'list' and isinstance(self.st.heap[it.t], HSeqList):
            h = self.st.heap[it.t]
            it = SV('seq', h.seq, h.x)
        if it.k in ('range', 'seq', 'gen'):
            return self.for_symbolic(s, it)
        items = self.iter_concrete(it)
        broke = False
        for v in items:
            self.assign(s.target, v)
            try:
                self.exec_block(s.body)
            except BreakSig:
                broke = True
                break
            except ContinueSig:
                continue
        if not broke:
            self.exec_block(s.orelse)

    def iter_object(self, o, node):
        r = self.call_method(o, '__iter__', [], {}, node)
        return r

    def for_symbolic(self, s, it):
        lc = self.loop_contract(s)
        if lc is None:
            raise Unsupported(f'for loop over a symbolic collection without invariant (line {s.lineno})')
        ordinal = self.loop_ordinal(s)
        env = self.frame.env
        tnames = [n.id for n in ast.walk(s.target) if isinstance(n, ast.Name)]
        if it.k == 'range':
            args = [self.as_int(a) for a in it.t]
            lo, hi = (z3.IntVal(0), args[0]) if len(args) == 1 else (args[0], args[1])
            if len(args) == 3:
                raise Unsupported('range step')
            idx = lc.get('index', tnames[0])
            # ghost iteration index  __i: lo <= __i <= max(lo,hi); done = [lo, __i)
            self.st.ghost['__i'] = VI(lo)
            self.check_invs(lc, 'inv-init', s, ordinal)
            self.havoc_loop(lc, s.body, extra_names=tnames)
            i = self.sym('i', INT)
            self.st.ghost['__i'] = VI(i)
            self.assume(z3.And(i >= lo, z3.Or(i <= hi, i == lo)))
            self.assume_invs(lc)
            if self.branch(i < hi):
                env[tnames[0]] = VI(i)
                try:
                    self.exec_block(s.body)
                except ContinueSig:
                    pass
                except BreakSig:
                    raise Unsupported('break inside a contracted for loop')
                self.st.ghost['__i'] = VI(i + 1)
                self.check_invs(lc, 'inv-keep', s, ordinal)
                raise PathEnd('loop body verified')
            self.exec_block(s.orelse)
            return
        if it.k == 'seq':
            xs = it.t
            self.st.ghost['__done'] = SV('seq', z3.Empty(SEQ), it.x)
            self.st.ghost['__todo'] = SV('seq', xs, it.x)
            self.check_invs(lc, 'inv-init', s, ordinal)
            self.havoc_loop(lc, s.body, extra_names=tnames)
            done, todo = self.sym('done', SEQ), self.sym('todo', SEQ)
            self.assume(xs == z3.Concat(done, todo))
            self.st.ghost['__done'] = SV('seq', done, it.x)
            self.st.ghost['__todo'] = SV('seq', todo, it.x)
            self.assume_invs(lc)
            if self.branch(z3.Length(todo) > 0):
                x = self.sym('x', INT)
                todo2 = self.sym('todo', SEQ)
                self.assume(todo == z3.Concat(z3.Unit(x), todo2))
                self.assign(s.target, VI(x) if it.x in (None, 'int') else SV('ref', x, it.x))
                try:
                    self.exec_block(s.body)
                except ContinueSig:
                    pass
                except BreakSig:
                    raise Unsupported('break inside a contracted for loop')
                self.st.ghost['__done'] = SV('seq', z3.Concat(done, z3.Unit(x)), it.x)
                self.st.ghost['__todo'] = SV('seq', todo2, it.x)
                self.check_invs(lc, 'inv-keep', s, ordinal)
                raise PathEnd('loop body verified')
            # exit: nothing left to do (implied facts stated explicitly to spare the sequence solver)
            self.assume(todo == z3.Empty(SEQ))
            self.assume(done == xs)
            self.exec_block(s.orelse)
            return
        if it.k == 'gen':
            return self.for_gen(s, it, lc, ordinal, tnames)
        raise Unsupported('for_symbolic')

    def for_gen(self, s, it, lc, ordinal, tnames):
        """consume a generator that is specified by a contract: each element satisfies the callee's per-yield guarantees
        (proved where the callee is verified) for some callee ghost state"""
        key, c, cenv = it.t
        self.check_invs(lc, 'inv-init', s, ordinal)
        self.havoc_loop(lc, s.body, extra_names=tnames)
        self.assume_invs(lc)
        if self.st.oracle.choose(2) == 0:
            env = dict(cenv)
            for g, (spec, init) in c.get('ghost', {}).items():
                env[g] = self.fresh_of(spec, 'callee_' + g)
            y = self.fresh_of(c['yields'], 'yielded')
            env['yielded'] = y
            for nm, r in self.clauses(c.get('yield_requires', [])):
                self.assume(self.truth(self.ev_spec(r, env)))
            self.assign(s.target, y)
            try:
                self.exec_block(s.body)
            except ContinueSig:
                pass
            except BreakSig:
                raise Unsupported('break inside a contracted for loop')
            self.check_invs(lc, 'inv-keep', s, ordinal)
            raise PathEnd('loop body verified')
        self.exec_block(s.orelse)
