"""Contracts: logical record bodies handed to the segmenter (C02, C16, C03 parts) and the per-class record-type cache (C14)."""
from contracts.c_enc import ITEM_REF_MODEL, OBN_RAISES, OBN_BYTES, U30
from contracts.c_segments import LRB_FIELDS, LRB_INV

NF = 'self.no_format_object'
_ob = lambda t: t.replace('value.', NF + '.')
BAD_TEXT = '(isinstance(self.data, str) and not all_ascii(self.data))'
PAYLOAD = '(ascii_bytes(self.data) if isinstance(self.data, str) else self.data)'

NF_ITEM = dict(ITEM_REF_MODEL)
NF_ITEM['cls'] = 'NoFormatItem'

CONTRACTS = {
 'NoFormatFrameData._make_body_bytes': dict(
    props=['C16', 'C12', 'C14'],
    self_fields={'no_format_object': NF_ITEM, 'data': 'oneof[bytes,bytearray,str]'},
    params={}, returns='bytes',
    raises={'UnicodeEncodeError': f'{BAD_TEXT} or ({_ob(OBN_RAISES["UnicodeEncodeError"])})',
            'RuntimeError': f'not {BAD_TEXT} and ({_ob(OBN_RAISES["RuntimeError"])})',
            'struct.error': f'not {BAD_TEXT} and ({_ob(OBN_RAISES["struct.error"])})',
            'ValueError': f'not {BAD_TEXT} and ({_ob(OBN_RAISES["ValueError"])})'},
    ensures=[('exact-payload', f'result == {_ob(OBN_BYTES)} + {PAYLOAD}'),
             ('nothing-appended', f'len(result) == len({_ob(OBN_BYTES)}) + len(self.data)')]),
}

# LogicalRecord.represent_as_bytes, verified once per concrete record class: body bytes, type byte and EFLR flag are passed on unchanged
for _cls, _eflr, _tp in (('NoFormatFrameData', False, 1), ('FrameData', False, 0)):
    CONTRACTS[f'LogicalRecord.represent_as_bytes[{_cls}]'] = dict(
        target='LogicalRecord.represent_as_bytes', self_class=_cls, props=['C02', 'C14'],
        self_fields={}, params={}, returns={'cls': 'LogicalRecordBytes', 'fields': LRB_FIELDS},
        class_state={f'{_cls}._lr_type_struct': ('bytes', f"self_cached == b'' or self_cached == enc_ushort({_tp})")},
        stubs={'_make_body_bytes': dict(returns='bytes', raises=True)},     # abstract: any bytes, or any exception (propagates)
        ensures=[('body-unchanged', 'result._bts == stub_result__make_body_bytes'), ('size', 'result._size == len(result._bts)'),
                 ('type-byte', f'result._lr_type_struct == enc_ushort({_tp})'), ('structure-flag', f'result._is_eflr == {_eflr}'),
                 ('cache-sound', f'{_cls}._lr_type_struct == enc_ushort({_tp})')])
