"""Witness for the open finding (C20, second sentence): a write() that raises half-way (here: the data for the second frame are missing)
has already stored values derived from the data of the first frame (INDEX-MIN / INDEX-MAX / SPACING, channel dimension and
representation code).  After the cause is removed the specification does not produce the file a fresh specification produces.
Same root as c13_stale_index_bounds_on_rewrite (set-up from data writes into the specification and never overwrites).
Exit 1 while it reproduces."""
import os
import sys
import tempfile
from datetime import datetime
import numpy as np
from dliswriter import DLISFile


def build():
    df = DLISFile(); lf = df.add_logical_file(); lf.add_origin('O', file_set_number=1, creation_time=datetime(2020, 1, 2, 3, 4, 5))
    d1 = lf.add_channel('D1'); x = lf.add_channel('X')
    lf.add_frame('F1', channels=(d1,), index_type='BOREHOLE-DEPTH')
    lf.add_frame('F2', channels=(x,))
    return df


def write(df, data):
    d = tempfile.mkdtemp(); p = os.path.join(d, 'x.dlis')
    try:
        df.write(p, data=data)
        return open(p, 'rb').read()
    finally:
        os.path.exists(p) and os.remove(p); os.rmdir(d)


good = {'D1': np.arange(100.0, 105.0), 'X': np.arange(5.0)}
df = build()
try:
    write(df, {'D1': np.arange(5.0)})           # X is missing: raises after F1 was set up from these data
    print('the incomplete write did not raise'); sys.exit(0)
except ValueError:
    pass
after_failure = write(df, good)
fresh = write(build(), good)
print('same file as a fresh specification:', after_failure == fresh)
sys.exit(0 if after_failure == fresh else 1)
