"""Witness for the open finding P15 (C14): write_struct is memoised on (code, value) with python ==/hash, so 1, 1.0 and True share an entry:
after write_struct(ASCII, 1) the call write_struct(ASCII, 1.0) returns the bytes of '1'.  Exit 1 while it reproduces."""
import sys
from dliswriter.utils.internal.struct_writer import write_struct
from dliswriter.utils.internal.internal_enums import RepresentationCode as RC
write_struct.cache_clear()
a = write_struct(RC.ASCII, 1)
b = write_struct(RC.ASCII, 1.0)
write_struct.cache_clear()
fresh = write_struct(RC.ASCII, 1.0)
print(a, b, fresh)
sys.exit(1 if b != fresh else 0)
