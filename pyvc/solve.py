"""Discharge obligations: z3 (python API) first; cvc5 / z3-4.8 CLIs on the same SMT-LIB text as second opinions."""
import os
import subprocess
import tempfile
import time
import z3

QUICK_MS = int(os.environ.get('PYVC_TIMEOUT_MS', '10000'))


def to_smt2(hyps, goal):
    s = z3.Solver()
    s.add(*hyps)
    s.add(z3.Not(goal))
    return s.to_smt2()


def run_cli(cmd, text, timeout_s):
    with tempfile.NamedTemporaryFile('w', suffix='.smt2', delete=False, dir=os.environ.get('VERIF_SCRATCH', '/var/tmp')) as f:
        f.write(text)
        path = f.name
    try:
        t = time.time()
        try:
            p = subprocess.run(cmd + [path], capture_output=True, text=True, timeout=timeout_s + 5)
            out = (p.stdout or '').strip().splitlines()
            res = out[0].strip() if out else 'unknown'
            if res not in ('sat', 'unsat', 'unknown'):
                res = 'unknown'
        except subprocess.TimeoutExpired:
            res = 'unknown'
        return res, time.time() - t
    finally:
        os.unlink(path)


def cvc5_check(text, timeout_s):
    return run_cli(['/usr/bin/cvc5', '--lang=smt2', '--strings-exp', f'--tlimit={int(timeout_s * 1000)}'], text, timeout_s)


def z3old_check(text, timeout_s):
    return run_cli(['/usr/bin/z3', '-smt2', f'-T:{int(timeout_s)}'], text, timeout_s)


def discharge(ob, timeout_ms=None, portfolio='fallback', want_model=True):
    """returns dict(status = discharged|refuted|unknown, solver, seconds, model(z3 ModelRef or None), by={solver: result})"""
    timeout_ms = timeout_ms or QUICK_MS
    g = z3.simplify(ob.goal)
    by = {}
    t0 = time.time()
    if z3.is_true(g):
        return dict(status='discharged', solver='simplifier', seconds=0.0, model=None, by={'simplifier': 'unsat'})
    s = z3.Solver()
    s.set('timeout', timeout_ms)
    s.add(*ob.hyps)
    s.add(z3.Not(ob.goal))
    r = s.check()
    by['z3-5.1'] = str(r)
    model = None
    if r == z3.sat and want_model:
        try:
            model = s.model()
        except z3.Z3Exception:
            model = None
    status = {'unsat': 'discharged', 'sat': 'refuted'}.get(str(r), 'unknown')
    solver = 'z3-5.1'
    if status == 'unknown' or portfolio == 'all':
        text = to_smt2(ob.hyps, ob.goal)
        for nm, fn in (('cvc5-1.0.3', cvc5_check), ('z3-4.8.12', z3old_check)):
            if status != 'unknown' and portfolio != 'all':
                break
            rr, dt = fn(text, timeout_ms / 1000.0)
            by[nm] = rr
            if rr in ('sat', 'unsat'):
                st2 = 'discharged' if rr == 'unsat' else 'refuted'
                if status == 'unknown':
                    status, solver = st2, nm
                elif status != st2:
                    status = 'disagree'
    return dict(status=status, solver=solver, seconds=time.time() - t0, model=model, by=by)


def hyps_consistent(ob, timeout_ms=1500):
    s = z3.Solver()
    s.set('timeout', timeout_ms)
    s.add(*ob.hyps)
    return str(s.check())
