#!/bin/sh
# tools/run_all.sh [--relock] : run every registered check on the current tree; print exit codes
cd "$(dirname "$0")/.."
rc=0
for i in 01 02 03 04 05 06 07 08 09 10 11 12 13 14 15 16 17 18 19 20; do
  ./check C$i --tier quick "$@" > /var/tmp/runall_C$i.log 2>&1; e=$?
  echo "C$i exit=$e $(tail -1 /var/tmp/runall_C$i.log | cut -c1-140)"
  [ $e -eq 0 ] || { rc=1; grep -v "^C$i \[\|KNOWN-FINDING" /var/tmp/runall_C$i.log | head -4; }
done
exit $rc
