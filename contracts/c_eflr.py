"""Contracts: object / template / set components of explicitly formatted records (C04), generated per item class from the
attribute schema that is extracted mechanically from the real source on every run."""
import ast
from pyvc.source import Source
from contracts.c_attr import ATTR_FIELDS
from contracts.c_enc import ITEM_REF_MODEL, OBN_RAISES

SPEC_UFS = {
    'attr_component': (('ref',), 'bytes'),              # bytes of one attribute component (= Attribute.get_as_bytes(), c_attr.py)
    'template_component': (('ref',), 'bytes'),          # bytes of one template component (= get_as_bytes(for_template=True))
    'item_body': (('ref',), 'bytes'),                   # bytes of one object component with its attributes (= make_item_body_bytes())
    'concat_item_bodies': (('seq',), 'concat:item_body'),
    'set_component': (('ref',), 'bytes'), 'template_bytes': (('ref',), 'bytes'),
}

_src = Source()


def schema(cls):
    """ordered python names of the Attribute-valued fields assigned in cls.__init__ (the class's attribute schema)"""
    fn, owner, _ = _src.find_method(cls, '__init__')
    out = []
    for st in fn.body:
        if isinstance(st, ast.Assign) and len(st.targets) == 1 and isinstance(st.targets[0], ast.Attribute) \
                and isinstance(st.targets[0].value, ast.Name) and st.targets[0].value.id == 'self' and isinstance(st.value, ast.Call):
            cname = _src.resolve_class_name(ast.unparse(st.value.func), _src.classes[owner].module)
            if cname and _src.is_subclass(cname, 'Attribute'):
                out.append(st.targets[0].attr)
    return out


ITEM_CLASSES = sorted(c for c in _src.classes if c != 'EFLRItem' and '.' not in c and _src.is_subclass(c, 'EFLRItem'))
SCHEMAS = {c: schema(c) for c in ITEM_CLASSES}

ATTR_OBJ = {'cls': 'Attribute', 'fields': {'_value': 'opq:optval'}}      # a value that may be None (symbolically)

CONTRACTS = {
 # summary of c_attr.py for callers: one component, a function of the attribute object
 'Attribute.get_as_bytes': dict(
    props=[], axiom=True, params={'for_template': 'bool'}, returns='bytes',
    may_raise_modular=True,
    ensures=['result == (template_component(self) if for_template else attr_component(self))']),
}

for _c in ITEM_CLASSES:
    if _c == 'FileHeaderItem':
        continue
    _sch = SCHEMAS[_c]
    if not _sch:
        continue
    _expected = ' + '.join(f"(b'\\x00' if self.{a}._value is None else attr_component(self.{a}))" for a in _sch)
    CONTRACTS[f'EFLRItem._make_attrs_bytes[{_c}]'] = dict(
        target='EFLRItem._make_attrs_bytes', self_class=_c, props=['C04'],
        self_fields=dict({'name': 'str'}, **{a: ATTR_OBJ for a in _sch}),
        params={}, returns='bytes', may_raise=['StubException'], merge_ifs=True,
        ensures=[('one-component-per-schema-attribute-in-schema-order-absent-marked', f'result == {_expected}')])
