#!/usr/bin/env python3
"""tools/import_round7.py <Cxx> [<Cxx> ...] : copy a round-7 sub-agent result (/tmp/wt/v<Cxx>/_out with A.diff, demo_A.py, B.diff, demo_B.py,
meta.json) into seeded/Cxx-M and seeded/Cxx-N."""
import json, os, shutil, sys
for prop in sys.argv[1:]:
    out = f'/tmp/wt/v{prop}/_out'
    if not os.path.exists(f'{out}/meta.json'):
        print('missing', out); continue
    meta = json.load(open(f'{out}/meta.json'))
    for src_v, dst_v in (('A', 'M'), ('B', 'N')):
        if not (os.path.exists(f'{out}/{src_v}.diff') and os.path.exists(f'{out}/demo_{src_v}.py')):
            print('incomplete', prop, src_v); continue
        d = f'/verif/seeded/{prop}-{dst_v}'
        os.makedirs(d, exist_ok=True)
        shutil.copy(f'{out}/{src_v}.diff', f'{d}/patch.diff')
        shutil.copy(f'{out}/demo_{src_v}.py', f'{d}/demo.py')
        m = meta.get(src_v, {})
        json.dump({'property': prop, 'variant': dst_v, 'round': 7, 'summary': m.get('summary'), 'needs_to_manifest': m.get('needs_to_manifest'),
                   'why_tests_pass': m.get('why_tests_pass'), 'subagent_ran': m.get('ran'),
                   'already_failing_noted_by_subagent': meta.get('already_failing')}, open(f'{d}/meta.json', 'w'), indent=1)
        print('imported', d)
