#!/bin/sh
# Offline setup: verifies interpreters and solvers; builds nothing, fetches nothing.
set -e
cd "$(dirname "$0")"
python3-vt -c "import z3; assert z3.get_version_string()" 
/venv/bin/python -c "import numpy, dliswriter"
command -v cvc5 >/dev/null
command -v z3 >/dev/null
mkdir -p evidence replays
echo "setup ok"
