"""Regression witness (C04, C12): a list assigned to a single-valued attribute was accepted; the attribute component then announced the
default count 1 and carried all elements, which no reader can decode.  Exit 1 while it reproduces."""
import sys
from dliswriter import DLISFile
df = DLISFile(); lf = df.add_logical_file()
try:
    o = lf.add_origin('O', file_set_number=1, file_type=['A', 'B'])
except TypeError as e:
    print('rejected:', e)
    sys.exit(0)
print('accepted: count', o.file_type.count, 'value', o.file_type.value, 'bytes', o.file_type.get_as_bytes())
sys.exit(1)
