"""Contracts: L-ENC primitive encoders (property C06) and the spec lemmas that validate spec/rp66.py itself."""

RC = 'RepresentationCode'
U30 = 1073741824

OPQ_MODELS = {
    'datetime': {'year': 'int', 'month': 'int', 'day': 'int', 'hour': 'int', 'minute': 'int', 'second': 'int', 'microsecond': 'int',
                 'astimezone': 'method', 'replace': 'method', 'utctimetuple': 'method', 'timetuple': 'method', 'tzinfo': 'opq:tzinfo', 'utcoffset': 'method:opq:timedelta',
                 '__isinstance__': {'datetime': True, 'Number': False, 'numbers.Number': False, 'str': False}},
    'tzinfo': {'__isinstance__': {}}, 'timedelta': {'__isinstance__': {}},
    'timetuple': {'tm_year': 'int', 'tm_mon': 'int', 'tm_mday': 'int', 'tm_hour': 'int', 'tm_min': 'int', 'tm_sec': 'int', '__isinstance__': {}},
    'float': {'__isinstance__': {'float': True, 'Number': True, 'numbers.Number': True}, 'is_integer': 'method:bool'},
}

ITEM_REF_MODEL = {'cls': 'EFLRItem', 'fields': {'_origin_reference': 'int?', '_copy_number': 'int', 'name': 'str',
                                                  '_parent': {'cls': 'EFLRSet', 'fields': {'set_type': 'str'}}}}

CONTRACTS = {}
OBN_NUM_BAD = f'value._origin_reference < 0 or value._origin_reference >= {U30} or value._copy_number < 0 or value._copy_number > 255'

# ---------------------------------------------------------------------------------------------- lemmas on the spec itself
def _lemma(name, params, requires, ensures):
    CONTRACTS[name] = dict(props=['C06'], params=params, requires=requires, ensures=ensures, lemma=True)

_lemma('lemma_ushort_roundtrip', {'v': 'int', 'rest': 'bytes'}, ['0 <= v <= 255'], [('rt', 'result == (v, 1)')])
_lemma('lemma_unorm_roundtrip', {'v': 'int', 'rest': 'bytes'}, ['0 <= v <= 65535'], [('rt', 'result == (v, 2)')])
_lemma('lemma_ulong_roundtrip', {'v': 'int', 'rest': 'bytes'}, ['0 <= v <= 4294967295'], [('rt', 'result == (v, 4)')])
_lemma('lemma_sshort_roundtrip', {'v': 'int', 'rest': 'bytes'}, ['-128 <= v <= 127'], [('rt', 'result == (v, 1)')])
_lemma('lemma_snorm_roundtrip', {'v': 'int', 'rest': 'bytes'}, ['-32768 <= v <= 32767'], [('rt', 'result == (v, 2)')])
_lemma('lemma_slong_roundtrip', {'v': 'int', 'rest': 'bytes'}, ['-2147483648 <= v <= 2147483647'], [('rt', 'result == (v, 4)')])
_lemma('lemma_uvari_roundtrip', {'v': 'int', 'rest': 'bytes'}, [f'0 <= v < {U30}'], [('rt', 'result == (v, uvari_len(v))')])
_lemma('lemma_ident_roundtrip', {'s': 'str', 'rest': 'bytes'}, ['len(s) <= 255'], [('rt', 'result == (ascii_bytes(s), 1 + len(s))')])
_lemma('lemma_ascii_roundtrip', {'s': 'str', 'rest': 'bytes'}, [f'len(s) < {U30}'], [('rt', 'result == (ascii_bytes(s), uvari_len(len(s)) + len(s))')])

# ---------------------------------------------------------------------------------------------- writer functions
CONTRACTS.update({
 'write_struct_uvari': dict(
    props=['C06', 'C12', 'C05'],
    params={'value': 'int'}, returns='bytes',
    raises={'struct.error': f'value < 0 or value >= {U30}'},
    ensures=[('spec', 'result == enc_uvari(value)'), ('len', 'len(result) == uvari_len(value)')]),
 'write_struct_ascii': dict(
    props=['C06', 'C12', 'C05'],
    params={'value': 'str'}, returns='bytes',
    raises={'struct.error': f'len(value) >= {U30}', 'UnicodeEncodeError': f'len(value) < {U30} and not all_ascii(value)'},
    ensures=[('spec', 'result == enc_ascii(value)')]),
 'write_struct_status': dict(
    props=['C06', 'C12', 'C05'],
    params={'value': 'int'}, returns='bytes',
    raises={'ValueError': 'value != 0 and value != 1'},
    ensures=[('spec', 'result == enc_status(value)')]),
 'write_struct_dtime': dict(
    props=['C06', 'C12', 'C05'],
    params={'date_time': 'opq:datetime'}, returns='bytes',
    raises={'struct.error': 'date_time.astimezone(timezone.utc).year < 1900 or date_time.astimezone(timezone.utc).year > 2155'},
    ensures=[('len', 'len(result) == 8'),
             ('fields', 'result[0:6] == enc_dtime_fields(date_time.astimezone(timezone.utc).year - 1900, 2, date_time.astimezone(timezone.utc).month, '
                        'date_time.astimezone(timezone.utc).day, date_time.astimezone(timezone.utc).hour, date_time.astimezone(timezone.utc).minute, '
                        'date_time.astimezone(timezone.utc).second, 0)[0:6]'),
             ('ms-range', '0 <= result[6] * 256 + result[7] <= 999'),
             ('ms-nearest', '-500 <= 1000 * (result[6] * 256 + result[7]) - date_time.astimezone(timezone.utc).microsecond <= 500 '
                            'or (result[6] * 256 + result[7] == 999 and date_time.astimezone(timezone.utc).microsecond >= 999500)')]),
 'write_struct_ident': dict(
    props=['C06', 'C12', 'C04', 'C05'],
    params={'value': 'str'}, returns='bytes',
    raises={'ValueError': 'len(value) > 255', 'UnicodeEncodeError': 'len(value) <= 255 and not all_ascii(value)'},
    ensures=[('spec', 'result == enc_ident(value)')]),
 'write_struct_obname': dict(
    props=['C06', 'C07', 'C12', 'C05'],
    params={'value': ITEM_REF_MODEL}, returns='bytes',
    raises={'RuntimeError': 'value._origin_reference is None',
            'struct.error': f'value._origin_reference is not None and ({OBN_NUM_BAD})',
            'ValueError': f'value._origin_reference is not None and not ({OBN_NUM_BAD}) and len(value.name) > 255',
            'UnicodeEncodeError': f'value._origin_reference is not None and not ({OBN_NUM_BAD}) and len(value.name) <= 255 and not all_ascii(value.name)'},
    ensures=[('spec', 'result == enc_obname(value._origin_reference, value._copy_number, value.name)')]),
})

# ---------------------------------------------------------------------------------------------- write_struct dispatch, per code
_INT_CODES = {'USHORT': ('enc_ushort', 0, 255), 'UNORM': ('enc_unorm', 0, 65535), 'ULONG': ('enc_ulong', 0, 4294967295),
              'SSHORT': ('enc_sshort', -128, 127), 'SNORM': ('enc_snorm', -32768, 32767), 'SLONG': ('enc_slong', -2147483648, 2147483647)}
for _c, (_f, _lo, _hi) in _INT_CODES.items():
    CONTRACTS[f'write_struct[{_c}]'] = dict(
        target='write_struct', props=['C06', 'C12', 'C05'],
        params={'representation_code': f'member:{RC}.{_c}', 'value': 'int'}, returns='bytes',
        raises={'struct.error': f'value < {_lo} or value > {_hi}'},
        ensures=[('spec', f'result == {_f}(value)')])

CONTRACTS['write_struct[UVARI]'] = dict(
    target='write_struct', props=['C06', 'C12', 'C05'],
    params={'representation_code': f'member:{RC}.UVARI', 'value': 'int'}, returns='bytes',
    raises={'struct.error': f'value < 0 or value >= {U30}'},
    ensures=[('spec', 'result == enc_uvari(value)')])
CONTRACTS['write_struct[STATUS]'] = dict(
    target='write_struct', props=['C06', 'C12', 'C05'],
    params={'representation_code': f'member:{RC}.STATUS', 'value': 'int'}, returns='bytes',
    raises={'ValueError': 'value != 0 and value != 1'},
    ensures=[('spec', 'result == enc_status(value)')])
CONTRACTS['write_struct[ASCII]'] = dict(
    target='write_struct', props=['C06', 'C12', 'C05'],
    params={'representation_code': f'member:{RC}.ASCII', 'value': 'str'}, returns='bytes',
    raises={'struct.error': f'len(value) >= {U30}', 'UnicodeEncodeError': f'len(value) < {U30} and not all_ascii(value)'},
    ensures=[('spec', 'result == enc_ascii(value)')])
# IDENT: the standard's IDENT has a one-byte (USHORT) length, so at most 255 characters
CONTRACTS['write_struct[IDENT]'] = dict(
    target='write_struct', props=['C06', 'C12', 'C05'],
    params={'representation_code': f'member:{RC}.IDENT', 'value': 'str'}, returns='bytes',
    raises={'ValueError': 'len(value) > 255', 'UnicodeEncodeError': 'len(value) <= 255 and not all_ascii(value)'},
    ensures=[('spec', 'result == enc_ident(value)')])
for _c, _w in (('FSINGL', 4), ('FDOUBL', 8)):
    CONTRACTS[f'write_struct[{_c}]'] = dict(
        target='write_struct', props=['C06', 'C05'],
        params={'representation_code': f'member:{RC}.{_c}', 'value': 'opq:float'}, returns='bytes',
        raises=({'OverflowError': 'f32_overflow(value)'} if _c == 'FSINGL' else {}),
        ensures=[('width', f'len(result) == {_w}'), ('ieee', f'result == ieee{_w * 8}(value)')])
CONTRACTS['write_struct[DTIME]'] = dict(
    target='write_struct', props=['C06', 'C05'],
    params={'representation_code': f'member:{RC}.DTIME', 'value': 'opq:datetime'}, returns='bytes',
    raises={'struct.error': 'value.astimezone(timezone.utc).year < 1900 or value.astimezone(timezone.utc).year > 2155'},
    ensures=[('len', 'len(result) == 8')])
OBN_RAISES = CONTRACTS['write_struct_obname']['raises']
OBN_BYTES = 'enc_obname(value._origin_reference, value._copy_number, value.name)'
CONTRACTS['write_struct[OBNAME]'] = dict(
    target='write_struct', props=['C06', 'C07', 'C05'],
    params={'representation_code': f'member:{RC}.OBNAME', 'value': ITEM_REF_MODEL}, returns='bytes',
    raises=OBN_RAISES,
    ensures=[('same-bytes-as-definition', f'result == {OBN_BYTES}')])
_ST = 'value._parent.set_type'
_T_OK = f'len({_ST}) <= 255 and all_ascii({_ST})'
CONTRACTS['write_struct_objref'] = dict(
    props=['C06', 'C07', 'C05'],
    params={'value': ITEM_REF_MODEL}, returns='bytes',
    raises={'ValueError': f'len({_ST}) > 255 or ({_T_OK} and ({OBN_RAISES["ValueError"]}))',
            'UnicodeEncodeError': f'(len({_ST}) <= 255 and not all_ascii({_ST})) or ({_T_OK} and ({OBN_RAISES["UnicodeEncodeError"]}))',
            'struct.error': f'{_T_OK} and ({OBN_RAISES["struct.error"]})',
            'RuntimeError': f'{_T_OK} and value._origin_reference is None'},
    ensures=[('spec', f'result == enc_objref({_ST}, value._origin_reference, value._copy_number, value.name)')])
