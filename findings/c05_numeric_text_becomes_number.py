"""Witness for the open finding (C05, "text exactly"): numeric-looking TEXT given to PARAMETER.VALUES / AXIS.COORDINATES is converted to a
number by convert_maybe_numeric (surrounding blanks included) and written with a numeric representation code.  Exit 1 while it reproduces."""
import sys
from dliswriter import DLISFile
df = DLISFile(); lf = df.add_logical_file(); lf.add_origin('O', file_set_number=1)
p = lf.add_parameter('P', values=[' 12 '])
a = lf.add_axis('AX', coordinates=['1.50'])
print('PARAMETER.VALUES', repr(p.values.value), p.values.representation_code, '| AXIS.COORDINATES', repr(a.coordinates.value), a.coordinates.representation_code)
sys.exit(1 if p.values.value != [' 12 '] or a.coordinates.value != ['1.50'] else 0)
