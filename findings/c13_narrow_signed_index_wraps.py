"""Witness for the open finding (C13; the signed sibling of c13_unsigned_index_wraps): consecutive differences of a narrow signed index
are computed in the index dtype, so int8 [-100, 100] gives SPACING -56 (200 wrapped).  Exit 1 while it reproduces."""
import sys
import numpy as np
from dliswriter import DLISFile
df = DLISFile(); lf = df.add_logical_file(); lf.add_origin('O', file_set_number=1)
ix = lf.add_channel('IX', data=np.array([-100, 100], dtype=np.int8))
fr = lf.add_frame('F', channels=(ix,), index_type='BOREHOLE-DEPTH')
df.generate_logical_records(chunk_size=None)
print('SPACING', fr.spacing.value, '(the signed difference is 200)')
sys.exit(1 if fr.spacing.value is not None and fr.spacing.value != 200 else 0)
