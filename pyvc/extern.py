"""Axiomatised externals: files (X-OS), context managers, decorators, numpy/h5py facts (X-NP*), datetime (X-DT)."""
import ast
import z3
from .values import *
from .engine import HObj, HList, HDict, key_of, Frame
from . import builtins_ as B


class ExternMixin:
    # ---------------------------------------------------------------- X-OS: open / write / close on the ghost disk
    def open_file(self, args, node):
        mode = args[1] if len(args) > 1 else VC('r')
        if mode.k != 'const':
            raise Unsupported('open() with symbolic mode')
        if 'disk' not in self.st.ghost:
            raise Unsupported('open(): contract declares no ghost disk')
        if mode.t == 'wb':
            self.st.ghost['disk'] = SV('bytes', z3.Empty(SEQ))      # truncation
        elif mode.t == 'ab':
            pass
        else:
            raise Unsupported(f'open mode {mode.t}')
        self.st.ghost['n_opens'] = VI(self.as_int(self.st.ghost.get('n_opens', VI(0))) + 1)
        return SV('obj', self.st.alloc(HObj('__file__', {'mode': mode, 'name': args[0]})))

    def close_file(self, h, node):
        pass

    def file_write(self, f, args):
        self.st.ghost['disk'] = SV('bytes', z3.Concat(self.as_seq(self.st.ghost['disk']), self.as_seq(args[0])))
        return VI(z3.Length(self.as_seq(args[0])))

    def getattr_value(self, base, name, node=None, default=None):
        if base.k == 'obj' and self.st.heap[base.t].cls == '__file__' and name == 'write':
            return SV('func', FuncVal(builtin='filewrite', bound=base, name='write'))
        return super().getattr_value(base, name, node, default)

    def bi_filewrite(self, args, kw, node):
        return self.file_write(None, args)

    def call_builtin(self, f, args, kw, node=None):
        if f.builtin == 'filewrite':
            return self.file_write(f.bound, args)
        return super().call_builtin(f, args, kw, node)

    # specification vocabulary
    def bi_fresh_bytes(self, args, kw, node):
        return SV('bytes', self.sym('fresh', SEQ))

    def bi_all_ascii(self, args, kw, node):
        return VB(self.all_ascii(self.as_seq(args[0])))

    def all_ascii(self, s):
        """structural decomposition of the predicate 'every code point < 128' (axioms of concat/unit/ite/repeat/str_of_int)"""
        s = z3.simplify(s)
        d = s.decl().kind() if z3.is_app(s) else None
        if d == z3.Z3_OP_SEQ_CONCAT:
            return z3.And(*[self.all_ascii(c) for c in s.children()])
        if d == z3.Z3_OP_SEQ_UNIT:
            c = s.arg(0)
            return z3.And(c >= 0, c < 128)
        if d == z3.Z3_OP_SEQ_EMPTY:
            return z3.BoolVal(True)
        if d == z3.Z3_OP_ITE:
            return z3.If(s.arg(0), self.all_ascii(s.arg(1)), self.all_ascii(s.arg(2)))
        if z3.is_app(s) and s.decl().name() == 'repeat':
            return z3.Or(s.arg(1) <= 0, z3.And(s.arg(0) >= 0, s.arg(0) < 128))
        if z3.is_app(s) and s.decl().name() == 'str_of_int':
            return z3.BoolVal(True)
        return self.ufunc('all_ascii', SEQ, BOOL)(s)
