"""Regression witness (C09): add_*(..., set_name='') created a second set of the same type next to the unnamed one; both were written
without a name, so one logical file held two sets of the same type and name.  Exit 1 while it reproduces."""
import os
import sys
import tempfile
import numpy as np
from dliswriter import DLISFile
df = DLISFile(); lf = df.add_logical_file(); lf.add_origin('O', file_set_number=1)
ch = lf.add_channel('A', data=np.arange(5.0))
lf.add_frame('F', channels=(ch,))
lf.add_zone('Z1', set_name='')
lf.add_zone('Z2')
d = tempfile.mkdtemp(); p = os.path.join(d, 'x.dlis')
try:
    df.write(p)
    n = open(p, 'rb').read().count(b'\xf0\x04ZONE')
finally:
    os.path.exists(p) and os.remove(p); os.rmdir(d)
print('unnamed ZONE sets in the file:', n)
sys.exit(1 if n != 1 else 0)
