"""Witness for the open finding (C17: "inside the high-compatibility context any file that is successfully built and written has only
names matching [A-Z0-9_-]+ (objects, set identifier, header id)"): names are validated only by the constructors. Inside the context
`channel.name = 'lower case name'`, `df.storage_unit_label.set_identifier = 'bad set id'` and `lf.file_header.header_id = 'bad header'`
are plain attribute assignments; the write succeeds and the file holds all three texts. (Reported by a round-7 sub-agent as already
failing; reproduced here.) Exit 1 while it reproduces."""
import os
import sys
import tempfile
import numpy as np
from dliswriter import DLISFile, high_compatibility_mode

d = tempfile.mkdtemp()
p = os.path.join(d, 'w.dlis')
found = []
try:
    with high_compatibility_mode():
        df = DLISFile()
        lf = df.add_logical_file()
        lf.add_origin('ORIGIN', file_set_number=1)
        ch = lf.add_channel('DEPTH', data=np.arange(4.0))
        lf.add_frame('MAIN', channels=(ch,), index_type='BOREHOLE-DEPTH')
        ch.name = 'lower case name'
        df.storage_unit_label.set_identifier = 'bad set id'
        lf.file_header.header_id = 'bad header'
        lf.origins[0].file_id.value = 'bad header'
        df.write(p, output_chunk_size=2 ** 16)
    raw = open(p, 'rb').read()
    found = [t for t in (b'lower case name', b'bad set id', b'bad header') if t in raw]
except Exception as e:          # rejected somewhere: the defect is gone
    print('rejected:', type(e).__name__, e)
finally:
    if os.path.exists(p):
        os.remove(p)
    os.rmdir(d)
print('non-conforming names written inside the mode:', found)
sys.exit(1 if found else 0)
