#!/bin/sh
# tools/port.sh <seeded dir> <python edit script>: regenerate patch.diff against the current /repo by applying an edit script to a scratch copy
set -e
D=$(readlink -f "$1"); ED=$(readlink -f "$2")
SCR=$(mktemp -d /var/tmp/port.XXXXXX); trap 'rm -rf "$SCR"' EXIT
mkdir -p "$SCR/a" "$SCR/b"; rsync -a --exclude .git --exclude src/tests /repo/ "$SCR/a/"; rsync -a "$SCR/a/" "$SCR/b/"
(cd "$SCR/b" && python3 "$ED")
[ -f "$D/patch.orig.diff" ] || cp "$D/patch.diff" "$D/patch.orig.diff"
(cd "$SCR" && diff -ruN a b | sed 's#^--- a/#--- a/#; s#^+++ b/#+++ b/#' > "$D/patch.diff") || true
grep -c '^[-+][^-+]' "$D/patch.diff"
