"""BOUNDED stand-in (never counted as proved) for FrameItem._compute_spacing_and_direction, the floating-point tolerance kernel of C13.

The real function is run on an enumerated family of index arrays (all arrays of length 2..5 over a 7-point grid per dtype, plus seeded
random nearly-uniform arrays) and compared with an oracle written from the documented rule:
  steps d_i = x[i+1] - x[i] (signed, mathematical); if all steps are equal: spacing = that step; otherwise with m = median of ALL steps:
  spacing = m if m != 0 and every distinct step d satisfies (1 - d/m)**2 < 0.001, else absent; direction: increasing if all steps >= 0 and
  not all 0, decreasing if all <= 0 and not all 0, else none.
Prints one JSON object: {"evaluations": n, "distinct": n, "violations": [{input, observed, expected}], "bound": "..."}"""
import itertools, json, math, os, sys
import numpy as np
from dliswriter.logical_record.eflr_types.frame import FrameItem


def oracle(x):
    d = [float(b) - float(a) for a, b in zip(x[:-1], x[1:])]
    if not d:
        return ('undefined', None)
    uniq = sorted(set(d))
    if all(v == 0 for v in uniq):
        direction = None
    elif all(v >= 0 for v in uniq):
        direction = True
    elif all(v <= 0 for v in uniq):
        direction = False
    else:
        direction = None
    if len(uniq) == 1:
        return (uniq[0], direction)
    m = float(np.median(np.array(d, dtype=np.float64)))
    if m == 0:
        return (None, direction)
    if all((1 - v / m) ** 2 < 0.001 for v in uniq):
        return (m, direction)
    return (None, direction)


def same(a, b):
    if a is None or b is None:
        return a is None and b is None
    if float(a) == 0.0 or float(b) == 0.0:
        return float(a) == float(b)
    return math.isclose(float(a), float(b), rel_tol=1e-9, abs_tol=0.0)      # relative only: the rule is scale-invariant


def main():
    seed = int(os.environ.get('VERIF_SEED', '0') or 0)
    thorough = os.environ.get('VERIF_TIER') == 'thorough'
    rng = np.random.default_rng(seed)
    cases = []
    grid = [-2.0, -1.0, -0.5, 0.0, 0.5, 1.0, 2.0]
    for n in (2, 3, 4, 5):
        for t in itertools.product(grid, repeat=n):
            cases.append(np.array(t, dtype=np.float64))
    for dt in (np.float32, np.int16, np.int32):
        for n in (2, 3, 4):
            for t in itertools.product([-3, -1, 0, 1, 2, 5], repeat=n):
                cases.append(np.array(t, dtype=dt))
    # nearly uniform steps with unevenly populated distinct values (the tolerance boundary)
    for _ in range(5000 if thorough else 600):
        n = int(rng.integers(5, 30))
        base = float(rng.choice([1.0, -1.0, 0.1524, 2.5]))
        steps = np.full(n, base)
        k = int(rng.integers(1, 3))
        steps[rng.choice(n, size=k, replace=False)] = base * (1 + rng.choice([0.01, 0.02, 0.03, 0.031, 0.032, 0.04, -0.02, -0.04]))
        cases.append(np.concatenate([[0.0], np.cumsum(steps)]))
    # the documented tolerance is RELATIVE: the same shapes at very small and very large magnitudes (ns time steps, large depths)
    for scale in (1e-9, 1e-6, 1e-3, 1e4, 1e9):
        for steps in ([1, 2, 3], [1, 1, 2], [3, 2, 1], [1, 1.01, 1], [1, 1.04, 1, 1], [-1, -2, -3], [1, -1, 1], [2, 2, 2, 2], [1, 1.031, 1, 1, 1], [1, 1.032, 1, 1, 1]):
            cases.append(np.concatenate([[0.0], np.cumsum(np.array(steps, dtype=np.float64) * scale)]))
    viol, seen = [], set()
    for x in cases:
        key = (str(x.dtype), x.tobytes())
        if key in seen:
            continue
        seen.add(key)
        if np.issubdtype(x.dtype, np.unsignedinteger):
            continue
        got = FrameItem._compute_spacing_and_direction(x)
        exp = oracle(x.tolist())
        gs = None if got[0] is None else float(got[0])
        if not same(gs, exp[0]) or (got[1] is None) != (exp[1] is None) or (got[1] is not None and bool(got[1]) != exp[1]):
            viol.append({'input': {'dtype': str(x.dtype), 'values': x.tolist()}, 'observed': [gs, None if got[1] is None else bool(got[1])], 'expected': list(exp)})
            if len(viol) >= 5:
                break
    print(json.dumps({'evaluations': len(cases), 'distinct': len(seen), 'violations': viol,
                      'bound': 'scale-invariance probes (10 step shapes x 5 magnitudes 1e-9..1e9); all arrays of length 2..5 over a 7-point float grid, length 2..4 over a 6-point grid for float32/int16/int32, '
                               + ('5000' if thorough else '600') + ' seeded nearly-uniform arrays of length 6..30; signed dtypes only'}))


main()
