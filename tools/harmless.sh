#!/bin/sh
# tools/harmless.sh : every harmless refactor under harmless/*.diff must leave its checks at exit 0
cd "$(dirname "$0")/.."
rc=0
for d in harmless/*.diff; do
  n=$(basename $d .diff); props=$(cat harmless/$n.props)
  SCR=$(mktemp -d "${VERIF_SCRATCH:-/var/tmp}/harm.XXXXXX"); mkdir -p $SCR/repo; rsync -a --exclude .git --exclude src/tests /repo/ $SCR/repo/
  (cd $SCR && patch -p1 -s -d repo < "$OLDPWD/$d") || { echo "$n: patch failed"; rc=1; rm -rf $SCR; continue; }
  for p in $props; do
    PYVC_SRC=$SCR/repo/src/dliswriter python3-vt -m pyvc.cli $p --tier quick > $SCR/out.txt 2>&1; e=$?
    echo "$n $p exit=$e $(tail -1 $SCR/out.txt | cut -c1-120)"
    [ $e -eq 0 ] || { rc=1; grep -v "^$p \[" $SCR/out.txt | head -5; }
  done
  rm -rf $SCR
done
exit $rc
