"""Witness for the open finding P11b (C05): units given as a member of the Unit enumeration through AttrSetup/dict/.units are stored as the
member and written as 'Unit.METER' instead of its value.  Exit 1 while it reproduces."""
import sys
from dliswriter import DLISFile, AttrSetup, enums
df = DLISFile(); lf = df.add_logical_file(); lf.add_origin('O', file_set_number=1)
p = lf.add_parameter('P', values=AttrSetup([1.0], units=enums.Unit.METER))
b = p.values.get_as_bytes()
print(b)
sys.exit(1 if b'Unit.' in b else 0)
