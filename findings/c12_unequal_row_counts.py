"""Witness for the open finding P8 (C12/T1): channels of one frame with different numbers of rows are accepted and written
(a longer one is truncated, a one-row one is broadcast).  Exit 1 while the defect reproduces, 0 once such data is rejected."""
import os, sys, tempfile
import numpy as np
from dliswriter import DLISFile

df = DLISFile()
lf = df.add_logical_file()
lf.add_origin('O', file_set_number=1)
a = lf.add_channel('A', data=np.arange(4, dtype=np.float64))
b = lf.add_channel('B', data=np.arange(6, dtype=np.float64))      # 6 rows against 4
lf.add_frame('F', channels=(a, b))
p = os.path.join(tempfile.mkdtemp(), 'x.dlis')
try:
    df.write(p, output_chunk_size=2 ** 16)
except Exception as e:
    print('rejected:', type(e).__name__, e)
    sys.exit(0)
print('accepted: a frame whose channels have 4 and 6 rows was written without an error')
sys.exit(1)
