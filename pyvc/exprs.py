"""Expression evaluation (each sub-expression evaluated exactly once, left to right)."""
import ast
import z3
from .values import *
from .engine import HObj, HList, HSeqList, HDict, key_of, NeedConcreteMember
from . import builtins_ as B


def _conc_int(t):
    t = z3.simplify(t)
    return t.as_long() if z3.is_int_value(t) else None


REALSORT = z3.RealSort()


class ExprMixin:
    def ev(self, e):
        m = getattr(self, 'ev_' + type(e).__name__, None)
        if m is None:
            raise Unsupported(f'expression {type(e).__name__}: {ast.unparse(e)[:80]}')
        return m(e)

    # ---------------------------------------------------------------- atoms
    def ev_Constant(self, e):
        return VC(e.value)

    def ev_Name(self, e):
        return self.lookup(e.id, e)

    def lookup(self, name, node=None):
        fr = self.frame
        if name in fr.env:
            return fr.env[name]
        if name in self.st.ghost:
            return self.st.ghost[name]
        if name == '__out__' and self.in_spec:
            return SV('tuple', tuple(self.st.out))
        if name in ('True', 'False'):
            return VB(name == 'True')
        # class-body scope: a class-level expression may name sibling class constants
        if getattr(fr, 'class_body', False) and fr.cls in self.src.classes and name in self.src.classes[fr.cls].consts:
            return self.cls_attr(fr.cls, name, node)
        # module-level names of the real source
        v = self.module_name(name, fr.module)
        if v is not None:
            return v
        if name in getattr(self, 'enclosing_bound', ()) and fr is self.st.frames[0]:
            # a free variable of the nested function under contract that the contract's `closure` does not declare: a value the
            # enclosing function computed when the closure was made - unknown here, and NOT tied to the current state
            if ('freevar', name) not in self.st.ghost:
                self.st.ghost[('freevar', name)] = SV('opq', self.sym('captured_' + name, OPQ), 'unknown')
            return self.st.ghost[('freevar', name)]
        raise Unsupported(f'name {name}')

    def module_name(self, name, module):
        src = self.src
        real = src.aliases.get(module, {}).get(name, name)
        c = src.resolve_class_name(real, module)
        if c is not None and (real in src.classes or real.split('.')[-1] == c):
            return SV('cls', c)
        if real in src.funcs:
            fn, path = src.funcs[real]
            return SV('func', FuncVal(node=fn, name=real, module=path))
        if real in getattr(self, 'spec_ufs', {}):
            return SV('func', FuncVal(builtin='uf:' + real, name=real))
        if real in B.SPEC_BUILTINS:
            return SV('func', FuncVal(builtin=real, name=real))
        if real in self.spec_funcs:
            return SV('func', FuncVal(node=self.spec_funcs[real], name=real, module='<spec>'))
        node = src.modconsts.get((module, real)) or src.modconsts.get(('*', real))
        if node is not None:
            return self.const_expr(node, module, real)
        if real in B.BUILTIN_NAMES:
            return SV('func', FuncVal(builtin=real, name=real))
        if real in B.MODULE_NAMES:
            return SV('const', B.ModuleRef(real))
        return None

    def const_expr(self, node, module, name=None):
        """module / class level constant from the real source: evaluated by the executor itself in a scratch frame"""
        gk = ('modconst', module, name or ast.unparse(node))
        if name == 'global_config':
            return self.global_object('global_config', 'DLISWriterConfig')
        if gk in self.st.ghost:
            return self.st.ghost[gk]
        from .engine import Frame
        self.st.frames.append(Frame({}, module=module))
        try:
            v = self.ev(node)
        finally:
            self.st.frames.pop()
        self.st.ghost[gk] = v
        return v

    def global_object(self, name, cls):
        gk = ('global', name)
        if gk not in self.st.ghost:
            raise Unsupported(f'global object {name} not declared in the contract (globals=...)')
        return self.st.ghost[gk]

    # ---------------------------------------------------------------- operators
    def ev_BinOp(self, e):
        a = self.ev(e.left)
        b = self.ev(e.right)
        return self.binop(type(e.op).__name__, a, b, e)

    def binop(self, op, a, b, node=None):
        # concrete python values on both sides: let CPython do it
        if a.k == 'const' and b.k == 'const':
            if isinstance(a.t, B.Items) and isinstance(b.t, B.Items) and op in ('Sub', 'BitOr', 'BitAnd', 'BitXor'):
                # concrete sets (set(...) of concrete members): difference / union / intersection / symmetric difference by member key
                ka, kb = {key_of(v): v for v in a.t.items}, {key_of(v): v for v in b.t.items}
                keep = {'Sub': [k for k in ka if k not in kb], 'BitAnd': [k for k in ka if k in kb],
                        'BitOr': list(ka) + [k for k in kb if k not in ka],
                        'BitXor': [k for k in ka if k not in kb] + [k for k in kb if k not in ka]}[op]
                return SV('const', B.Items([ka[k] if k in ka else kb[k] for k in keep]))
            return VC(B.py_binop(op, a.t, b.t))
        if (a.k == 'const' and isinstance(a.t, float) and b.k == 'int' and _conc_int(b.t) is not None) or \
           (b.k == 'const' and isinstance(b.t, float) and a.k == 'int' and _conc_int(a.t) is not None):
            x_ = a.t if a.k == 'const' else _conc_int(a.t)
            y_ = b.t if b.k == 'const' else _conc_int(b.t)
            return VC(B.py_binop(op, x_, y_))
        if a.k == 'const' and isinstance(a.t, str) and op == 'Mod':
            raise Unsupported('% string formatting')
        if a.k in ('real', 'earr') or b.k in ('real', 'earr'):
            return self.np_binop(op, a, b, node)          # X-NPSTEP (pyvc/npstats.py)
        if op == 'Add' and (a.k == 'tuple' and b.k == 'tuple'):
            return SV('tuple', a.t + b.t)
        if op == 'Add' and ((a.k == 'list' and isinstance(self.st.heap[a.t], HSeqList)) or (b.k == 'list' and isinstance(self.st.heap[b.t], HSeqList))
                            or (a.k == 'seq' and b.k in ('seq', 'list')) or (b.k == 'seq' and a.k == 'list')):
            x = a.x if a.k == 'seq' else (b.x if b.k == 'seq' else None)
            return SV('seq', z3.Concat(self.list_as_seq(a), self.list_as_seq(b)), x)
        if op == 'Add' and a.k == 'list' and b.k == 'list':
            return SV('list', self.st.alloc(HList(self.st.heap[a.t].items + self.st.heap[b.t].items)))
        if op == 'BitOr' and a.k == 'dict' and b.k == 'dict':
            d = dict(self.st.heap[a.t].d)
            d.update(self.st.heap[b.t].d)
            return SV('dict', self.st.alloc(HDict(d)))
        seqa, seqb = a.k in ('bytes', 'str') or self._cseq(a), b.k in ('bytes', 'str') or self._cseq(b)
        if seqa and seqb and op == 'Add':
            kind = 'bytes' if (self.is_bytes_like(a) and self.is_bytes_like(b)) else 'str'
            if not ((self.is_bytes_like(a) and self.is_bytes_like(b)) or (self.is_str_like(a) and self.is_str_like(b))):
                raise PyRaise('TypeError', 'bytes + str')
            return SV(kind, z3.Concat(self.as_seq(a), self.as_seq(b)))
        if op == 'Mult' and (seqa or seqb) and (self.is_num(a) or self.is_num(b)):
            s, n = (a, b) if seqa else (b, a)
            return self.seq_repeat(s, n, node)
        if a.k == 'opq' or b.k == 'opq' or (a.k == 'const' and isinstance(a.t, float)) or (b.k == 'const' and isinstance(b.t, float)):
            return self.opq_binop(op, a, b)
        x, y = self.as_int(a), self.as_int(b)
        if op == 'Add':
            return VI(x + y)
        if op == 'Sub':
            return VI(x - y)
        if op == 'Mult':
            return VI(x * y)
        if op in ('Mod', 'FloorDiv'):
            # python floor semantics == SMT div/mod for positive divisor; negative divisors handled exactly below
            yc = _conc_int(y)
            if yc is None or yc <= 0:
                if yc == 0 or (yc is None and self.branch(y == 0)):
                    raise PyRaise('ZeroDivisionError')
                if yc is None:
                    if not self.branch(y > 0):
                        # negative divisor: a // b == (-a) // (-b) ; a % b == -((-a) % (-b))
                        return VI((-x) / (-y)) if op == 'FloorDiv' else VI(-((-x) % (-y)))
                elif yc < 0:
                    return VI((-x) / (-y)) if op == 'FloorDiv' else VI(-((-x) % (-y)))
            return VI(x % y) if op == 'Mod' else VI(x / y)
        if op == 'Pow':
            yc = _conc_int(y)
            xc = _conc_int(x)
            if yc is not None and xc is not None and yc >= 0:
                return VI(xc ** yc)
            if yc is not None and 0 <= yc <= 4:
                r = z3.IntVal(1)
                for _ in range(yc):
                    r = r * x
                return VI(r)
            raise Unsupported('symbolic **')
        if op in ('BitAnd', 'BitOr', 'LShift', 'RShift', 'BitXor'):
            xc, yc = _conc_int(x), _conc_int(y)
            if xc is not None and yc is not None:
                return VI(B.py_binop(op, xc, yc))
            # non-negative operands below 2**62: exact through 64-bit vectors (python ints are unbounded; outside this window: unsupported)
            W = 64
            lim = 1 << 62
            ok = z3.And(x >= 0, x < lim, y >= 0, y < (64 if op in ('LShift', 'RShift') else lim))
            if not self.branch(ok):
                raise Unsupported(f'bit operation {op} on a negative or huge operand')
            bx, by = z3.Int2BV(x, W), z3.Int2BV(y, W)
            r = {'BitAnd': bx & by, 'BitOr': bx | by, 'BitXor': bx ^ by, 'LShift': bx << by, 'RShift': z3.LShR(bx, by)}[op]
            if op == 'LShift':
                if not self.branch(z3.BV2Int(z3.LShR(r, by), False) == x):
                    raise Unsupported('left shift overflowing the 64-bit window')
            return VI(z3.BV2Int(r, False))
        if op == 'Div':
            return self.opq_binop(op, a, b)
        raise Unsupported(f'binop {op}')

    def _cseq(self, v):
        return v.k == 'const' and isinstance(v.t, (bytes, bytearray, str))

    def seq_repeat(self, s, n, node=None):
        nc = _conc_int(self.as_int(n))
        kind = 'bytes' if self.is_bytes_like(s) else 'str'
        if nc is not None:
            if s.k == 'const':
                return VC(s.t * nc)
            if nc <= 0:
                return SV(kind, z3.Empty(SEQ))
            return SV(kind, z3.Concat(*[s.t] * nc) if nc > 1 else s.t)
        # symbolic count: finite-domain concretisation when the count is provably in a small range (exact) ...
        cnt = self.as_int(n)
        try:
            c = self.concretise(cnt, node, limit=16)
            return self.seq_repeat(s, VI(c), node)
        except Unsupported:
            pass
        # ... otherwise single-element patterns only: n copies of one element, as the uninterpreted term repeat(e, n)
        elem = None
        if s.k == 'const' and len(s.t) == 1:
            elem = z3.IntVal(s.t[0] if isinstance(s.t[0], int) else ord(s.t[0]))
        elif s.k in ('bytes', 'str') and z3.is_app(z3.simplify(s.t)) and z3.simplify(s.t).decl().kind() == z3.Z3_OP_SEQ_UNIT:
            elem = z3.simplify(s.t).arg(0)
        if elem is not None:
            ln = z3.If(cnt > 0, cnt, z3.IntVal(0))
            r = self.ufunc('repeat', INT, INT, SEQ)(elem, ln)
            self.assume(z3.Length(r) == ln)
            return SV(kind, r)
        raise Unsupported('sequence repeated a symbolic number of times')

    def opq_binop(self, op, a, b):
        f = self.ufunc('f' + op, OPQ, OPQ, OPQ)
        unknown = (a.k == 'opq' and a.x == 'unknown') or (b.k == 'opq' and b.x == 'unknown')
        r = f(self.as_opq(a), self.as_opq(b))
        if op == 'Mod' and a.k == 'opq' and a.x == 'float' and ((b.k == 'const' and b.t == 1 and not isinstance(b.t, bool)) or
                                                                (b.k == 'int' and z3.is_int_value(b.t) and b.t.as_long() == 1)):
            # X-FLOAT: x % 1 is non-zero exactly when x is not integral (inf and nan: nan, truthy, and not integral)
            self.assume(self.ufunc('truthy', OPQ, BOOL)(r) == z3.Not(self.ufunc('float_is_integer', OPQ, BOOL)(a.t)))
            return SV('opq', r, 'float')
        return SV('opq', r, 'unknown' if unknown else None)

    def as_opq(self, v):
        if v.k == 'opq':
            return v.t
        if v.k in ('int', 'bool'):
            return self.ufunc('of_int', INT, OPQ)(self.as_int(v))
        if v.k == 'const' and isinstance(v.t, (int, float)):
            if float(v.t) == int(v.t):
                return self.ufunc('of_int', INT, OPQ)(z3.IntVal(int(v.t)))
            return z3.Const(f'flt_{repr(v.t)}', OPQ)
        if v.k == 'none':
            return z3.Const('py_None', OPQ)
        if v.k == 'tuple':
            els = [self.as_opq(x) for x in v.t]
            return self.ufunc(f'mk_tuple_{len(els)}', *([OPQ] * len(els)), OPQ)(*els) if els else z3.Const('empty_tuple', OPQ)
        if v.k == 'ref':
            return self.ufunc('of_ref', INT, OPQ)(v.t)
        if v.k in ('obj', 'dict', 'list'):
            return self.ufunc('of_ref', INT, OPQ)(z3.IntVal(-v.t))
        if v.k == 'const' and isinstance(v.t, str):
            return self.ufunc('of_str', SEQ, OPQ)(seq_of_str(v.t))
        if v.k == 'str':
            return self.ufunc('of_str', SEQ, OPQ)(v.t)
        if v.k == 'bytes' or (v.k == 'const' and isinstance(v.t, (bytes, bytearray))):
            return self.ufunc('of_bytes', SEQ, OPQ)(self.as_seq(v))
        raise Unsupported(f'as_opq {v}')

    def ev_UnaryOp(self, e):
        a = self.ev(e.operand)
        if a.k == 'earr' or (a.k == 'real' and not isinstance(e.op, ast.Not)):
            return self.np_unary(type(e.op).__name__, a)
        if isinstance(e.op, ast.Not):
            return VB(z3.Not(self.truth(a)))
        if isinstance(e.op, ast.USub):
            if a.k == 'const':
                return VC(-a.t)
            if a.k == 'opq':
                return SV('opq', self.ufunc('fneg', OPQ, OPQ)(a.t))
            return VI(-self.as_int(a))
        if isinstance(e.op, ast.UAdd):
            return a
        if isinstance(e.op, ast.Invert):
            if a.k == 'opq':
                return SV('opq', self.ufunc('finvert', OPQ, OPQ)(a.t), a.x)        # ~mask of an external array
            if a.k in ('int', 'bool'):
                return VI(-self.as_int(a) - 1)
        raise Unsupported('unary op')

    def ev_BoolOp(self, e):
        # python value semantics with short circuit: forks on the truthiness of each operand but the last
        is_or = isinstance(e.op, ast.Or)
        v = None
        vals = []
        allbool = True
        for i, x in enumerate(e.values):
            v = self.ev(x)
            if i == len(e.values) - 1:
                break
            tz = z3.simplify(self.truth(v))
            if z3.is_true(tz) or z3.is_false(tz):
                if z3.is_true(tz) == is_or:
                    return v
                continue
            if v.k == 'bool' and self._pure_bool_rest(e.values[i + 1:]):
                # pure boolean tail without side effects: build a formula instead of forking
                rest = [self.truth(self.ev(y)) for y in e.values[i + 1:]]
                ts = [v.t] + rest
                return VB(z3.Or(*ts) if is_or else z3.And(*ts))
            t = self.branch(self.truth(v))
            if t == is_or:
                return v
        return v

    def _pure_bool_rest(self, nodes):
        """operands that cannot raise / have no effects / are boolean valued: comparisons of names, attrs, constants, len()"""
        for n in nodes:
            for sub in ast.walk(n):
                if isinstance(sub, ast.Call):
                    if not (isinstance(sub.func, ast.Name) and sub.func.id in ('len', 'isinstance', 'old', 'implies', 'min', 'max')):
                        return False
                if isinstance(sub, (ast.Subscript, ast.BinOp)) and not self.in_spec:
                    if isinstance(sub, ast.BinOp) and isinstance(sub.op, (ast.Mod, ast.FloorDiv, ast.Div)):
                        return False
                    if isinstance(sub, ast.Subscript):
                        return False
                if isinstance(sub, (ast.IfExp, ast.Lambda, ast.ListComp, ast.GeneratorExp, ast.NamedExpr)):
                    return False
            if not isinstance(n, (ast.Compare, ast.BoolOp)) and not (isinstance(n, ast.UnaryOp) and isinstance(n.op, ast.Not)):
                if not (isinstance(n, ast.Call) and isinstance(n.func, ast.Name) and n.func.id in ('isinstance', 'implies')):
                    return False
        return True

    def ev_IfExp(self, e):
        c = self.truth(self.ev(e.test))
        if self.in_spec:
            # specification context: build an if-then-else term when both arms have the same smt kind (no forking)
            cs = z3.simplify(c)
            if not (z3.is_true(cs) or z3.is_false(cs)):
                a, b = self.ev(e.body), self.ev(e.orelse)
                m = self.merge_ite(cs, a, b)
                if m is not None:
                    return m
                # arms of different kinds (e.g. int vs None): case split on the condition instead
                return a if self.branch(cs) else b
        if self.branch(c):
            return self.ev(e.body)
        return self.ev(e.orelse)

    def merge_ite(self, c, a, b):
        if self.is_num(a) and self.is_num(b):
            if a.k == 'bool' and b.k == 'bool':
                return VB(z3.If(c, a.t, b.t))
            return VI(z3.If(c, self.as_int(a), self.as_int(b)))
        if (a.k in ('bytes', 'str') or self._cseq(a)) and (b.k in ('bytes', 'str') or self._cseq(b)):
            return SV('bytes' if self.is_bytes_like(a) else 'str', z3.If(c, self.as_seq(a), self.as_seq(b)))
        if a.k == 'none' and b.k == 'none':
            return a
        return None

    def ev_Compare(self, e):
        left = self.ev(e.left)
        cs = []
        for op, r in zip(e.ops, e.comparators):
            right = self.ev(r)
            if (left.k == 'earr' or right.k == 'earr') and len(e.ops) == 1:
                return self.np_compare(type(op).__name__, left, right)      # element-wise: an array of booleans (X-NPSTEP)
            cs.append(self.compare(type(op).__name__, left, right, e))
            left = right
        return VB(z3.And(*cs) if len(cs) > 1 else cs[0])

    def compare(self, o, a, b, node=None):
        if (a.k == 'real' or b.k == 'real') and o in self.REL and a.k != 'none' and b.k != 'none':
            return self.np_compare(o, a, b).t
        if o in ('Is', 'IsNot'):
            r = self.identical(a, b)
            return r if o == 'Is' else z3.Not(r)
        if o in ('In', 'NotIn'):
            r = self.contains(b, a)
            return r if o == 'In' else z3.Not(r)
        if o in ('Eq', 'NotEq'):
            r = self.equal(a, b)
            return r if o == 'Eq' else z3.Not(r)
        if a.k == 'const' and b.k == 'const':
            return z3.BoolVal(B.py_compare(o, a.t, b.t))
        if a.k == 'opq' or b.k == 'opq' or (a.k == 'const' and isinstance(a.t, float)) or (b.k == 'const' and isinstance(b.t, float)):
            return self.ufunc('f' + o, OPQ, OPQ, BOOL)(self.as_opq(a), self.as_opq(b))
        if a.k == 'enum' and b.k == 'enum':
            return z3.BoolVal(B.py_compare(o, self.enum_value(a), self.enum_value(b)))
        x, y = self.as_int(a), self.as_int(b)
        return {'Lt': x < y, 'LtE': x <= y, 'Gt': x > y, 'GtE': x >= y}[o]

    def identical(self, a, b):
        if a.k in ('real', 'earr') or b.k in ('real', 'earr'):
            if a.k == 'real' and b.k == 'real':
                return a.t == b.t if z3.eq(a.t, b.t) else self.ufunc('same_float_object', REALSORT, REALSORT, BOOL)(a.t, b.t)
            return z3.BoolVal(False)
        if self.in_spec and {a.k, b.k} == {'int', 'bool'}:
            return z3.BoolVal(False)             # `n is True`: an int object is never the bool singleton (contracts only)
        if a.k == 'none' or b.k == 'none':
            if a.k == 'opq' or b.k == 'opq':
                o = a if a.k == 'opq' else b
                m_ = getattr(self, 'opq_model_table', {}).get(o.x or 'any', {})
                if m_.get('__truthy__') or m_.get('__notnone__'):
                    return z3.BoolVal(False)       # a value of this external kind is an object, never None
                return self.ufunc('is_none', OPQ, BOOL)(o.t)
            return z3.BoolVal(a.k == b.k)
        if {a.k, b.k} == {'ref', 'obj'}:
            r, o = (a, b) if a.k == 'ref' else (b, a)
            return r.t == self.elem_code(o)
        if a.k in ('obj', 'list', 'dict') or b.k in ('obj', 'list', 'dict'):
            return z3.BoolVal(a.k == b.k and a.t == b.t)
        if a.k == 'enumv' or b.k == 'enumv':
            if {a.k, b.k} <= {'enumv', 'enum'}:
                return self.as_int(a) == self.as_int(b)
            return z3.BoolVal(False)
        if a.k == 'enum' or b.k == 'enum' or a.k == 'cls' or b.k == 'cls':
            return z3.BoolVal(a.k == b.k and a.t == b.t)
        if a.k == 'bool' and b.k == 'bool':
            return a.t == b.t
        if a.k == 'ref' and b.k == 'ref':
            return a.t == b.t
        if {a.k, b.k} == {'ref', 'obj'}:
            r, o = (a, b) if a.k == 'ref' else (b, a)
            return r.t == self.elem_code(o)
        if a.k == 'opq' and b.k == 'opq':
            return a.t == b.t
        if a.k == 'opq' or b.k == 'opq':
            return z3.BoolVal(False)
        raise Unsupported(f'is: {a} {b}')

    def equal(self, a, b):
        if a.k == 'const' and b.k == 'const':
            return z3.BoolVal(a.t == b.t)
        if a.k == 'real' or b.k == 'real':
            if a.k == 'none' or b.k == 'none' or a.k in ('str', 'bytes', 'tuple') or b.k in ('str', 'bytes', 'tuple'):
                return z3.BoolVal(False)
            return self.np_compare('Eq', a, b).t
        if a.k == 'none' or b.k == 'none':
            if a.k == 'opq' or b.k == 'opq':
                return self.identical(a, b)
            return z3.BoolVal(a.k == b.k)
        if (a.k in ('bytes', 'str') or self._cseq(a)) and (b.k in ('bytes', 'str') or self._cseq(b)):
            if self.is_bytes_like(a) != self.is_bytes_like(b):
                return z3.BoolVal(False)
            return self.as_seq(a) == self.as_seq(b)
        if a.k == 'seq' and b.k == 'seq':
            return a.t == b.t
        if self.is_num(a) and self.is_num(b):
            if a.k == 'bool' and b.k == 'bool':
                return a.t == b.t
            return self.as_int(a) == self.as_int(b)
        if a.k == 'enumv' or b.k == 'enumv':
            if a.k == 'none' or b.k == 'none':
                return z3.BoolVal(False)
            return self.as_int(a) == self.as_int(b)
        if a.k == 'enum' and b.k == 'enum':
            if a.t[0] == b.t[0]:
                return z3.BoolVal(a.t[1] == b.t[1])
            return z3.BoolVal(self.enum_value(a) == self.enum_value(b))
        if a.k == 'enum' and self.is_num(b) or b.k == 'enum' and self.is_num(a):
            return self.as_int(a) == self.as_int(b)
        if a.k == 'enum' and self.is_str_like(b) or b.k == 'enum' and self.is_str_like(a):
            en, s = (a, b) if a.k == 'enum' else (b, a)
            ev = self.enum_value(en)
            if isinstance(ev, str):
                return self.as_seq(VC(ev)) == self.as_seq(s)
            return z3.BoolVal(False)
        if a.k == 'tuple' and b.k == 'tuple':
            if len(a.t) != len(b.t):
                return z3.BoolVal(False)
            return z3.And(*[self.equal(x, y) for x, y in zip(a.t, b.t)]) if a.t else z3.BoolVal(True)
        if (a.k == 'list' and isinstance(self.st.heap[a.t], HSeqList)) or (b.k == 'list' and isinstance(self.st.heap[b.t], HSeqList)) \
                or (a.k == 'seq' and b.k == 'list') or (a.k == 'list' and b.k == 'seq'):
            return self.list_as_seq(a) == self.list_as_seq(b)
        if a.k == 'list' and b.k == 'list':
            ia, ib = self.st.heap[a.t].items, self.st.heap[b.t].items
            if len(ia) != len(ib):
                return z3.BoolVal(False)
            return z3.And(*[self.equal(x, y) for x, y in zip(ia, ib)]) if ia else z3.BoolVal(True)
        if a.k in ('obj', 'cls', 'func') or b.k in ('obj', 'cls', 'func'):
            # default object equality is identity (classes with __eq__ are not compared in verified code)
            return z3.BoolVal(a.k == b.k and a.t == b.t)
        if a.k == 'opq' or b.k == 'opq':
            try:
                return self.as_opq(a) == self.as_opq(b)
            except Unsupported:
                return z3.BoolVal(False) if (a.k in ('list', 'seq') or b.k in ('list', 'seq')) else self._unsup_eq(a, b)
        if a.k == 'ref' and b.k == 'ref':
            return a.t == b.t
        kinds = {a.k, b.k}
        if kinds <= {'int', 'bool', 'const', 'bytes', 'str', 'tuple', 'list', 'enum'}:
            # different python types that never compare equal (e.g. int vs str, list vs tuple)
            if (self.is_num(a) and (self.is_str_like(b) or self.is_bytes_like(b) or b.k in ('tuple', 'list'))) or \
               (self.is_num(b) and (self.is_str_like(a) or self.is_bytes_like(a) or a.k in ('tuple', 'list'))) or \
               ({a.k, b.k} == {'tuple', 'list'}) or \
               ((self.is_str_like(a) or self.is_bytes_like(a)) and b.k in ('tuple', 'list')) or \
               ((self.is_str_like(b) or self.is_bytes_like(b)) and a.k in ('tuple', 'list')):
                return z3.BoolVal(False)
        return self._unsup_eq(a, b)

    def list_as_seq(self, v):
        if v.k == 'seq':
            return v.t
        h = self.st.heap[v.t]
        if isinstance(h, HSeqList):
            return h.seq
        us = [z3.Unit(self.elem_code(x)) for x in h.items]
        return z3.Empty(SEQ) if not us else (us[0] if len(us) == 1 else z3.Concat(*us))

    def elem_code(self, x):
        """integer code of a list element inside a symbolic sequence: symbolic references as they are, concrete objects as -id
        (their declared ref_fields are synchronised into the field arrays when they escape)"""
        if x.k == 'ref':
            return x.t
        if x.k == 'obj':
            self.escape(x)
            return z3.IntVal(-x.t)
        return self.as_int(x)

    def escape(self, o):
        esc = self.st.ghost.setdefault(('escaped',), set())
        if o.t in esc:
            return
        esc.add(o.t)
        h = self.st.heap[o.t]
        for name, spec in (self.cur_contract or {}).get('ref_fields', {}).items():
            if name in h.f:
                self.sync_ref_field(o, name, h.f[name], spec)

    def sync_ref_field(self, o, name, val, spec):
        import z3 as _z
        sort = {'int': INT, 'str': SEQ, 'bytes': SEQ, 'bool': BOOL}[spec.rstrip('?')]
        arr = self.st.ghost.get(('heapf', name))
        if arr is None:
            arr = _z.Const(f'heap_{name}', _z.ArraySort(INT, sort))
        idx = _z.IntVal(-o.t)
        if spec.endswith('?'):
            self.st.ghost[('heapn', name)] = _z.Store(self._none_arr(name), idx, _z.BoolVal(val.k == 'none'))
        if val.k != 'none':
            tv = self.as_seq(val) if sort == SEQ else (self.as_int(val) if sort == INT else self.truth(val))
            arr = _z.Store(arr, idx, tv)
        self.st.ghost[('heapf', name)] = arr

    def _unsup_eq(self, a, b):
        raise Unsupported(f'== between {a} and {b}')

    def contains(self, container, x):
        c = container
        if c.k == 'obj' and '__store__' in self.st.heap[c.t].f:
            c = self.st.heap[c.t].f['__store__']
        if c.k == 'tuple' or c.k == 'list':
            items = c.t if c.k == 'tuple' else self.st.heap[c.t].items
            if not items:
                return z3.BoolVal(False)
            return z3.Or(*[self.equal(x, y) for y in items])
        if c.k == 'dict' and self.st.heap[c.t].sym:
            h = self.st.heap[c.t]
            return z3.Or(*[self.equal(x, k) for k, _ in h.sym])
        if c.k == 'dict':
            h = self.st.heap[c.t]
            if any(k[0] == 's' for k in h.d):
                return z3.BoolVal(self.dict_key(h, x) in h.d)
            try:
                return z3.BoolVal(key_of(x) in h.d)
            except Unsupported:
                return z3.Or(*[self.equal(x, self.unkey(k)) for k in h.d]) if h.d else z3.BoolVal(False)
        if c.k == 'opq':
            # membership in an external container (tuple of field names ...): an uninterpreted predicate of container and element
            return self.ufunc('opq_contains', OPQ, OPQ, BOOL)(c.t, self.as_opq(x))
        if c.k in ('str', 'bytes') or self._cseq(c):
            if c.k == 'const' and x.k == 'const':
                return z3.BoolVal(x.t in c.t)
            return z3.Contains(self.as_seq(c), self.as_seq(x))
        if c.k == 'seq':
            return z3.Contains(c.t, z3.Unit(self.as_int(x) if x.k != 'ref' else x.t))
        raise Unsupported(f'in {c}')

    def unkey(self, k):
        if k[0] == 'c':
            return VC(k[1])
        if k[0] == 'i':
            return VI(k[1])
        if k[0] == 'n':
            return NONE
        if k[0] == 'cls':
            return SV('cls', k[1])
        if k[0] == 'e':
            return SV('enum', k[1])
        if k[0] == 'h':
            h = self.st.heap[k[1]]
            return SV('obj' if isinstance(h, HObj) else ('list' if isinstance(h, HList) else 'dict'), k[1])
        if k[0] == 't':
            return SV('tuple', tuple(self.unkey(x) for x in k[1]))
        if k[0] == 's':
            return self.st.ghost[('symkeys',)][k]
        raise Unsupported('unkey')

    def dict_key(self, h, v):
        """dictionary key for a value that may be a symbolic str / int: case split over the keys already present (path condition
        records equal / different); a key different from all of them becomes a token of its own (same term -> same token)"""
        try:
            kk = key_of(v)
        except NeedConcreteMember:
            raise
        except Unsupported:
            if v.k not in ('str', 'int'):
                raise
            tok = ('s', v.k, v.t.sexpr())
            if tok in h.d:
                return tok
            for other in list(h.d):
                ov = self.unkey(other)
                if (ov.k in ('str', 'const') and v.k == 'str') or (ov.k == 'int' and v.k == 'int'):
                    if self.branch(self.equal(v, ov)):
                        return other
            self.st.ghost.setdefault(('symkeys',), {})[tok] = v
            return tok
        if kk not in h.d and kk[0] in ('c', 'i'):
            for other in list(h.d):
                if other[0] == 's' and self.branch(self.equal(v, self.unkey(other))):
                    return other
        return kk

    # ---------------------------------------------------------------- containers
    def ev_Tuple(self, e):
        out = []
        for x in e.elts:
            if isinstance(x, ast.Starred):
                out.extend(self.iter_concrete(self.ev(x.value)))
            else:
                out.append(self.ev(x))
        return SV('tuple', tuple(out))

    def ev_List(self, e):
        out = []
        for x in e.elts:
            if isinstance(x, ast.Starred):
                out.extend(self.iter_concrete(self.ev(x.value)))
            else:
                out.append(self.ev(x))
        return SV('list', self.st.alloc(HList(out)))

    def ev_Dict(self, e):
        d = {}
        for k, v in zip(e.keys, e.values):
            if k is None:
                dv = self.ev(v)
                d.update(self.st.heap[dv.t].d)
            else:
                kv = self.ev(k)
                tmp = HDict(d)
                d[self.dict_key(tmp, kv)] = self.ev(v)
        return SV('dict', self.st.alloc(HDict(d)))

    def ev_JoinedStr(self, e):
        # f-strings: only with concrete pieces (messages of raise / logging are dropped before evaluation)
        parts = []
        for p in e.values:
            if isinstance(p, ast.Constant):
                parts.append(p.value)
            else:
                v = self.ev(p.value)
                if v.k == 'const':
                    spec = ''
                    if p.format_spec is not None:
                        spec = ''.join(x.value for x in p.format_spec.values)
                    parts.append(format(v.t, spec))
                elif v.k == 'int' and _conc_int(v.t) is not None:
                    parts.append(str(_conc_int(v.t)))
                else:
                    return self.symbolic_fstring(e)
        return VC(''.join(parts))

    def symbolic_fstring(self, e):
        segs = []
        for p in e.values:
            if isinstance(p, ast.Constant):
                segs.append(seq_of_str(p.value))
            else:
                if p.format_spec is not None or p.conversion != -1:
                    raise Unsupported('f-string with format spec on a symbolic value')
                v = self.ev(p.value)
                segs.append(self.as_seq(self.to_str(v)))
        segs = [s for s in segs]
        return VS(z3.Concat(*segs) if len(segs) > 1 else segs[0])

    def ev_Subscript(self, e):
        base = self.ev(e.value)
        if isinstance(e.slice, ast.Slice):
            lo = self.ev(e.slice.lower) if e.slice.lower else NONE
            hi = self.ev(e.slice.upper) if e.slice.upper else NONE
            step = self.ev(e.slice.step) if e.slice.step else NONE
            return self.slice_value(base, lo, hi, step, e)
        idx = self.ev(e.slice)
        return self.index_value(base, idx, e)

    def slice_value(self, base, lo, hi, step, node=None):
        if step.k != 'none':
            sc = _conc_int(self.as_int(step))
            if base.k in ('list', 'tuple') and sc is not None and lo.k == 'none' and hi.k == 'none':
                items = list(base.t) if base.k == 'tuple' else self.st.heap[base.t].items
                r = items[::sc]
                return SV('tuple', tuple(r)) if base.k == 'tuple' else SV('list', self.st.alloc(HList(r)))
            raise Unsupported('slice step')
        if base.k == 'list' and isinstance(self.st.heap[base.t], HSeqList):
            h = self.st.heap[base.t]
            if lo.k == 'none' and hi.k == 'none':
                return SV('list', self.st.alloc(HSeqList(h.seq, h.x)))      # copy
            r = self.slice_value(SV('seq', h.seq, h.x), lo, hi, step, node)
            return SV('list', self.st.alloc(HSeqList(r.t, h.x)))
        if base.k in ('list', 'tuple'):
            items = list(base.t) if base.k == 'tuple' else self.st.heap[base.t].items
            a = None if lo.k == 'none' else _conc_int(self.as_int(lo))
            b = None if hi.k == 'none' else _conc_int(self.as_int(hi))
            if (lo.k != 'none' and a is None) or (hi.k != 'none' and b is None):
                raise Unsupported('symbolic slice of a concrete list')
            r = items[a:b]
            return SV('tuple', tuple(r)) if base.k == 'tuple' else SV('list', self.st.alloc(HList(r)))
        if base.k == 'const' and (lo.k == 'none' or _conc_int(self.as_int(lo)) is not None) and (hi.k == 'none' or _conc_int(self.as_int(hi)) is not None):
            a = None if lo.k == 'none' else _conc_int(self.as_int(lo))
            b = None if hi.k == 'none' else _conc_int(self.as_int(hi))
            return VC(base.t[a:b])
        if base.k == 'opq':
            return self.opq_slice(base, lo, hi, node)
        s = self.as_seq(base)
        n = z3.Length(s)

        def norm(v, default):
            if v.k == 'none':
                return default
            x = self.as_int(v)
            xc = _conc_int(x)
            if xc is not None and xc >= 0:
                return z3.If(x > n, n, x)
            return z3.If(x < 0, z3.If(x + n < 0, z3.IntVal(0), x + n), z3.If(x > n, n, x))
        a2 = norm(lo, z3.IntVal(0))
        b2 = norm(hi, n)
        ln = z3.If(b2 - a2 < 0, z3.IntVal(0), b2 - a2)
        kind = base.k if base.k in ('bytes', 'str', 'seq') else ('bytes' if self.is_bytes_like(base) else 'str')
        return SV(kind, z3.simplify(z3.Extract(s, a2, ln)), base.x)

    def opq_slice(self, base, lo, hi, node):
        return self.opq_call(base, '__getitem__', [SV('slice', (lo, hi))], {}, node)

    def index_value(self, base, idx, node=None):
        if base.k == 'earr':
            return self.np_index(base, idx, node)
        if base.k == 'list' and isinstance(self.st.heap[base.t], HSeqList):
            h = self.st.heap[base.t]
            return self.index_value(SV('seq', h.seq, h.x), idx, node)
        if base.k in ('list', 'tuple'):
            items = base.t if base.k == 'tuple' else self.st.heap[base.t].items
            ic = _conc_int(self.as_int(idx))
            if ic is None:
                if self.in_spec and items and all(self.is_num(x) for x in items):
                    i = self.as_int(idx)
                    r = self.as_int(items[-1])
                    for j in range(len(items) - 2, -1, -1):
                        r = z3.If(i == j, self.as_int(items[j]), r)
                    return VI(r)
                raise Unsupported(f'symbolic index into concrete list: {ast.unparse(node) if node else ""}')
            if not -len(items) <= ic < len(items):
                raise PyRaise('IndexError')
            return items[ic]
        if base.k == 'dict' and self.st.heap[base.t].sym:
            h = self.st.heap[base.t]
            for k_, v_ in reversed(h.sym):
                if self.branch(self.equal(idx, k_)):
                    return v_
            raise PyRaise('KeyError')
        if base.k == 'dict':
            h = self.st.heap[base.t]
            try:
                k = key_of(idx)
            except Unsupported:
                if idx.k == 'enumv':
                    idx = self.concrete_member(idx)
                    k = key_of(idx)
                else:
                    # symbolic key: case split over the keys of the dictionary
                    k = self.dict_key(h, idx)
                    if k in h.d:
                        return h.d[k]
                    raise PyRaise('KeyError')
            if k not in h.d and any(kk[0] == 's' for kk in h.d):
                k = self.dict_key(h, idx)
            if k in h.d:
                return h.d[k]
            if h.default is not None:
                v = self.call_value(h.default, [], {})
                h.d[k] = v
                return v
            raise PyRaise('KeyError')
        if base.k == 'const' and self.is_num(idx) and _conc_int(self.as_int(idx)) is not None:
            try:
                return VC(base.t[_conc_int(self.as_int(idx))])
            except IndexError:
                raise PyRaise('IndexError')
        if base.k in ('bytes', 'str', 'seq') or self._cseq(base):
            s = self.as_seq(base)
            i = self.as_int(idx)
            ic = _conc_int(i)
            n = z3.Length(s)
            if ic is not None and ic < 0:
                i = n + i
            if not self.in_spec:
                ok = z3.And(i >= 0, i < n)
                if not self.branch(ok):
                    raise PyRaise('IndexError')
            if base.k == 'str' or (base.k == 'const' and isinstance(base.t, str)):
                return VS(z3.Extract(s, i, z3.IntVal(1)))
            if base.k == 'seq' and base.x not in (None, 'int'):
                return SV('ref', s[i], base.x)
            return VI(s[i])
        if base.k == 'cls' or (base.k == 'const'):
            return self.generic_subscript(base, idx)
        if base.k == 'opq' or base.k == 'obj':
            return self.obj_getitem(base, idx, node)
        raise Unsupported(f'subscript of {base}')

    def generic_subscript(self, base, idx):
        if base.k == 'cls':       # typing generics such as type[X], list[int] in expressions
            return base
        raise Unsupported('subscript of const')

    def obj_getitem(self, base, idx, node):
        if base.k == 'obj' and '__store__' in self.st.heap[base.t].f:
            return self.index_value(self.st.heap[base.t].f['__store__'], idx, node)
        if base.k == 'obj':
            return self.call_method(base, '__getitem__', [idx], {}, node)
        if '__getitem__' in self.opq_models().get(base.x or 'any', {}):
            return self.opq_call(base, '__getitem__', [idx], {}, node)
        if base.k == 'opq' and base.x == 'unknown':
            return SV('opq', self.sym('unknown_item', OPQ), 'unknown')
        raise Unsupported(f'opaque __getitem__ on {base.x}')

    def ev_Lambda(self, e):
        return SV('func', FuncVal(node=e, closure=self.frame.env, owner=self.frame.cls, module=self.frame.module, name='<lambda>'))

    def ev_NamedExpr(self, e):
        v = self.ev(e.value)
        self.frame.env[e.target.id] = v
        return v

    def ev_Starred(self, e):
        raise Unsupported('starred expression outside call/tuple')

    # comprehensions over concrete-length iterables (unrolled exactly)
    def ev_ListComp(self, e):
        return SV('list', self.st.alloc(HList(self.comprehend(e.elt, e.generators))))

    def ev_GeneratorExp(self, e):
        return SV('list', self.st.alloc(HList(self.comprehend(e.elt, e.generators))))

    def ev_SetComp(self, e):
        # a set is kept as the list of its candidate elements: membership tests are exact; its size and its iteration order are not modelled
        h = HList(self.comprehend(e.elt, e.generators))
        h.is_set = True
        return SV('list', self.st.alloc(h))

    def ev_DictComp(self, e):
        pairs = self.comprehend(ast.Tuple(elts=[e.key, e.value], ctx=ast.Load()), e.generators)
        d = {}
        sym = []
        for p in pairs:
            try:
                if sym:
                    raise Unsupported('mix')
                d[key_of(p.t[0])] = p.t[1]
            except Unsupported:
                if d:
                    sym = [(self.unkey(k_), v_) for k_, v_ in d.items()]
                    d = {}
                sym.append((p.t[0], p.t[1]))
        h = HDict(d)
        h.sym = sym
        return SV('dict', self.st.alloc(h))

    def comprehend(self, elt, gens):
        out = []
        from .engine import Frame
        saved = self.frame.env
        self.frame.env = dict(saved)     # comprehension scope (reads enclosing names)

        def rec(i):
            if i == len(gens):
                out.append(self.ev(elt))
                return
            g = gens[i]
            for item in self.iter_concrete(self.ev(g.iter)):
                self.assign(g.target, item)
                if all(self.branch(self.truth(self.ev(c))) for c in g.ifs):
                    rec(i + 1)
        try:
            rec(0)
        finally:
            self.frame.env = saved
        return out

    def iter_concrete(self, v):
        """iterate a value whose length is a program constant on this path"""
        if v.k == 'opq' and v.x == 'unknown':
            # state the model does not mention: two representative shapes - nothing to iterate, or one (unknown) element
            if self.st.oracle.choose(2) == 0:
                return []
            return [SV('opq', self.sym('unknown_element', OPQ), 'unknown')]
        if v.k == 'obj' and '__store__' in self.st.heap[v.t].f:
            v = self.st.heap[v.t].f['__store__']
        if v.k == 'tuple':
            return list(v.t)
        if v.k == 'seq' or (v.k == 'list' and isinstance(self.st.heap[v.t], HSeqList)):
            # a sequence term that is structurally a concatenation of units has a program-constant length
            from .solve import concat_leaves
            term = v.t if v.k == 'seq' else self.st.heap[v.t].seq
            x = v.x if v.k == 'seq' else self.st.heap[v.t].x
            out = []
            for leaf in concat_leaves(z3.simplify(term)):
                if not (z3.is_app(leaf) and leaf.decl().kind() == z3.Z3_OP_SEQ_UNIT):
                    raise Unsupported(f'iteration over a sequence of symbolic length: {v}')
                e = z3.simplify(leaf.arg(0))
                if z3.is_int_value(e) and e.as_long() < 0 and -e.as_long() in self.st.heap:
                    hh = self.st.heap[-e.as_long()]
                    out.append(SV('obj' if isinstance(hh, HObj) else 'list', -e.as_long()))
                else:
                    out.append(VI(e) if x in (None, 'int') else SV('ref', e, x))
            return out
        if v.k == 'list':
            if getattr(self.st.heap[v.t], 'is_set', False):
                raise Unsupported('iteration over a set (order and multiplicity are not modelled)')
            return list(self.st.heap[v.t].items)
        if v.k == 'dict':
            return [self.unkey(k) for k in self.st.heap[v.t].d]
        if v.k == 'const' and isinstance(v.t, (str, bytes, tuple, list, range)):
            return [VC(x) for x in v.t]
        if v.k == 'const' and isinstance(v.t, B.Items):
            return v.t.items
        raise Unsupported(f'iteration over {v}')
